(** Bounds for the node-read cost model [Cost.v] (second half of C11).

    Invariants used.  The bounds need only that the stored heights are the real heights
    ([heights_ok], the [h = max (height l) (height r) + 1] conjunct of [TreeFacts.wf]); the
    sharper bound [10h - 1] for proofs needs in addition that stored sizes are positive
    ([sizes_pos], implied by the [s = size l + size r] conjunct of [wf]).  Neither the key
    ordering nor the AVL balance is used.  Corollaries are stated for [wf] trees. *)
From IAVL Require Import Bytes Varint Tree VMap TreeFacts Ics23 Cost.
Local Open Scope Z_scope.

(** * Invariants *)
Fixpoint heights_ok (t : node) : Prop :=
  match t with
  | Leaf _ _ _ => True
  | Inner _ h _ _ l r => heights_ok l /\ heights_ok r /\ h = Z.max (height l) (height r) + 1
  end.

(** every left child has a positive stored size (what [getByIndex] compares the index with) *)
Fixpoint sizes_pos (t : node) : Prop :=
  match t with
  | Leaf _ _ _ => True
  | Inner _ _ _ _ l r => sizes_pos l /\ sizes_pos r /\ 1 <= size l
  end.

Lemma wf_heights_ok t : wf t -> heights_ok t.
Proof.
  induction t as [|k h s m l IHl r IHr]; cbn [wf heights_ok]; [auto|].
  intros (Wl & Wr & _ & _ & _ & Hh & _). auto.
Qed.

Lemma wf_sizes_pos t : wf t -> sizes_pos t.
Proof.
  induction t as [|k h s m l IHl r IHr]; cbn [wf sizes_pos]; [auto|].
  intros (Wl & Wr & _ & _ & _ & _ & _). pose proof (size_pos l Wl). auto.
Qed.

Lemma heights_ok_nonneg t : heights_ok t -> 0 <= height t.
Proof.
  induction t as [|k h s m l IHl r IHr]; cbn [heights_ok height]; [lia|].
  intros (Hl & Hr & Hh). specialize (IHl Hl). specialize (IHr Hr). lia.
Qed.

Lemma heights_ok_inner_pos k h s m l r : heights_ok (Inner k h s m l r) -> 1 <= h.
Proof.
  cbn [heights_ok]. intros (Hl & Hr & Hh).
  pose proof (heights_ok_nonneg l Hl). pose proof (heights_ok_nonneg r Hr). lia.
Qed.

(** * Depth of the leaf a search ends in *)

(** the directions taken by the search for [k] ([false] = left, [true] = right): the common
    control flow of [Node.get], [Node.pathToLeaf] *)
Fixpoint search_path (t : node) (k : bytes) : list bool :=
  match t with
  | Leaf _ _ _ => []
  | Inner nk _ _ _ l r => if blt k nk then false :: search_path l k else true :: search_path r k
  end.

Fixpoint descend (t : node) (p : list bool) : option node :=
  match p with
  | [] => Some t
  | d :: p' =>
      match t with
      | Leaf _ _ _ => None
      | Inner _ _ _ _ l r => descend (if d then r else l) p'
      end
  end.

(** [depth t k]: the number of edges from the root to the leaf the search for [k] ends in *)
Definition depth (t : node) (k : bytes) : Z := Z.of_nat (length (search_path t k)).

(** the search path does end in a leaf, and it is the leaf [pathToLeaf] returns *)
Lemma search_path_leaf hf wv t k :
  let '(_, (lk, lv, m), ok) := path_to_leaf hf wv t k in
  descend t (search_path t k) = Some (Leaf lk lv m) /\ ok = beq lk k.
Proof.
  induction t as [lk lv m|nk h s m l IHl r IHr]; cbn [path_to_leaf search_path].
  - cbn [descend]. auto.
  - destruct (blt k nk) eqn:C.
    + destruct (path_to_leaf hf wv l k) as [[p [[lk lv] lm]] ok]. cbn [descend]. exact IHl.
    + destruct (path_to_leaf hf wv r k) as [[p [[lk lv] lm]] ok]. cbn [descend]. exact IHr.
Qed.

(** that leaf holds [Node.get]'s answer *)
Lemma search_path_get t k :
  exists lk lv m, descend t (search_path t k) = Some (Leaf lk lv m) /\
                  snd (get t k) = if beq lk k then Some lv else None.
Proof.
  induction t as [lk lv m|nk h s m l IHl r IHr]; cbn [get search_path].
  - exists lk, lv, m. cbn [descend]. split; [reflexivity|].
    unfold beq. destruct (bcmp lk k); reflexivity.
  - destruct (blt k nk) eqn:C; cbn [descend].
    + exact IHl.
    + destruct IHr as (lk & lv & lm & D & G). exists lk, lv, lm. split; [exact D|].
      destruct (get r k) as [i v]. exact G.
Qed.

Lemma depth_le_height t k : heights_ok t -> depth t k <= height t.
Proof.
  unfold depth. induction t as [|nk h s m l IHl r IHr]; cbn [heights_ok search_path height length].
  - lia.
  - intros (Hl & Hr & Hh). specialize (IHl Hl). specialize (IHr Hr).
    destruct (blt k nk); cbn [length]; lia.
Qed.

(** * Exact costs *)
Theorem cost_get_exact t k : cost_get t k = depth t k.
Proof.
  unfold depth. induction t as [|nk h s m l IHl r IHr]; cbn [cost_get search_path]; [reflexivity|].
  destruct (blt k nk); cbn [length]; rewrite Nat2Z.inj_succ; lia.
Qed.

(** ... = the number of inner nodes of the [PathToLeaf] (the inner ops of the existence proof) *)
Theorem cost_get_path_length hf wv t k :
  cost_get t k = Z.of_nat (length (fst (fst (path_to_leaf hf wv t k)))).
Proof.
  induction t as [|nk h s m l IHl r IHr]; cbn [cost_get path_to_leaf]; [reflexivity|].
  destruct (blt k nk).
  - destruct (path_to_leaf hf wv l k) as [[p lf] ok]. cbn [fst length] in *.
    rewrite Nat2Z.inj_succ. lia.
  - destruct (path_to_leaf hf wv r k) as [[p lf] ok]. cbn [fst length] in *.
    rewrite Nat2Z.inj_succ. lia.
Qed.

Theorem cost_path_to_leaf_exact t k : cost_path_to_leaf t k = 2 * depth t k.
Proof.
  rewrite <- cost_get_exact.
  induction t as [|nk h s m l IHl r IHr]; cbn [cost_get cost_path_to_leaf]; [reflexivity|].
  destruct (blt k nk); lia.
Qed.

Theorem cost_membership_proof_exact t k : cost_membership_proof t k = 2 * depth t k.
Proof. apply cost_path_to_leaf_exact. Qed.

(** [Has] never reads more than [Get]; it reads less exactly when it stops at a routing key *)
Lemma cost_has_le_get t k : 0 <= cost_has t k <= cost_get t k.
Proof.
  induction t as [lk lv m|nk h s m l IHl r IHr]; cbn [cost_has cost_get nkey].
  - destruct (beq lk k); lia.
  - destruct (beq nk k); destruct (blt k nk); lia.
Qed.

(** on a [wf] tree a routing key is a leaf key, so [Has] on an ABSENT key makes the full descent *)
Lemma cost_has_absent t k : wf t -> has t k = false -> cost_has t k = cost_get t k.
Proof.
  induction t as [lk lv m|nk h s m l IHl r IHr]; cbn [wf has cost_has cost_get nkey].
  - intros _. destruct (beq lk k); [discriminate|reflexivity].
  - intros (Wl & Wr & _). destruct (beq nk k); [discriminate|].
    destruct (blt k nk); intros Hh; [rewrite (IHl Wl Hh)|rewrite (IHr Wr Hh)]; reflexivity.
Qed.

(** the [ok] flag of [path_to_leaf] does not depend on the hash function / version *)
Lemma path_ok_indep hf wv t k : snd (path_to_leaf hf wv t k) = path_ok t k.
Proof.
  unfold path_ok. induction t as [|nk h s m l IHl r IHr]; cbn [path_to_leaf]; [reflexivity|].
  destruct (blt k nk).
  - destruct (path_to_leaf hf wv l k) as [[p lf] ok].
    destruct (path_to_leaf (fun _ => []) 0 l k) as [[p' lf'] ok']. exact IHl.
  - destruct (path_to_leaf hf wv r k) as [[p lf] ok].
    destruct (path_to_leaf (fun _ => []) 0 r k) as [[p' lf'] ok']. exact IHr.
Qed.

(** * Bounds by the height: lookups *)
Lemma cost_get_nonneg t k : 0 <= cost_get t k.
Proof. rewrite cost_get_exact. unfold depth. lia. Qed.

Theorem cost_get_bound t k : heights_ok t -> cost_get t k <= height t.
Proof. intros Hk. rewrite cost_get_exact. apply depth_le_height, Hk. Qed.

Theorem cost_get_with_index_bound t k : heights_ok t -> cost_get_with_index t k <= height t.
Proof. apply cost_get_bound. Qed.

Theorem cost_has_bound t k : heights_ok t -> cost_has t k <= height t.
Proof. intros Hk. pose proof (cost_has_le_get t k). pose proof (cost_get_bound t k Hk). lia. Qed.

Lemma cost_get_by_index_nonneg t i : 0 <= cost_get_by_index t i.
Proof.
  revert i. induction t as [|nk h s m l IHl r IHr]; intros i; cbn [cost_get_by_index]; [lia|].
  destruct (i <? size l); [specialize (IHl i)|specialize (IHr (i - size l))]; lia.
Qed.

(** [getByIndex] fetches BOTH children on a right step: the bound is [2 * height], not [height]
    (see [cost_get_by_index_le_height_refuted]) *)
Theorem cost_get_by_index_bound t i : heights_ok t -> cost_get_by_index t i <= 2 * height t.
Proof.
  revert i. induction t as [|nk h s m l IHl r IHr]; intros i; cbn [heights_ok cost_get_by_index height].
  - lia.
  - intros (Hl & Hr & Hh). destruct (i <? size l).
    + specialize (IHl i Hl). pose proof (heights_ok_nonneg l Hl). lia.
    + specialize (IHr (i - size l) Hr). lia.
Qed.

(** the statement "one read per level" is false for [GetByIndex]: already on a two-leaf tree
    the lookup of index 1 makes 2 reads at height 1 *)
Definition two_leaves : node :=
  Inner [2%N] 1 2 (Meta 1 1 []) (Leaf [1%N] [10%N] (Meta 1 2 [])) (Leaf [2%N] [20%N] (Meta 1 3 [])).

Theorem cost_get_by_index_le_height_refuted :
  exists t i, wf t /\ avl t /\ get_by_index t i <> None /\ ~ cost_get_by_index t i <= height t.
Proof.
  exists two_leaves, 1. split; [|split; [|split]].
  - cbn. repeat split; vm_compute; congruence.
  - cbn. repeat split; lia.
  - vm_compute. discriminate.
  - vm_compute. intros Hc. apply Hc. reflexivity.
Qed.

(** a left step costs 1, a right step 2: exact count *)
Fixpoint index_path (t : node) (i : Z) : list bool :=
  match t with
  | Leaf _ _ _ => []
  | Inner _ _ _ _ l r =>
      if i <? size l then false :: index_path l i else true :: index_path r (i - size l)
  end.

Theorem cost_get_by_index_exact t i :
  cost_get_by_index t i =
  Z.of_nat (length (index_path t i)) + Z.of_nat (length (filter (fun d => d) (index_path t i))).
Proof.
  revert i. induction t as [|nk h s m l IHl r IHr]; intros i; cbn [cost_get_by_index index_path].
  - reflexivity.
  - destruct (i <? size l); cbn [filter length]; rewrite ?Nat2Z.inj_succ.
    + rewrite (IHl i). lia.
    + rewrite (IHr (i - size l)). lia.
Qed.

(** the 2h+2 form of C11 *)
Corollary cost_get_bound_C11 t k : heights_ok t -> cost_get t k <= 2 * height t + 2.
Proof. intros Hk. pose proof (cost_get_bound t k Hk). pose proof (heights_ok_nonneg t Hk). lia. Qed.
Corollary cost_has_bound_C11 t k : heights_ok t -> cost_has t k <= 2 * height t + 2.
Proof. intros Hk. pose proof (cost_has_bound t k Hk). pose proof (heights_ok_nonneg t Hk). lia. Qed.
Corollary cost_get_with_index_bound_C11 t k : heights_ok t -> cost_get_with_index t k <= 2 * height t + 2.
Proof. apply cost_get_bound_C11. Qed.
Corollary cost_get_by_index_bound_C11 t i : heights_ok t -> cost_get_by_index t i <= 2 * height t + 2.
Proof. intros Hk. pose proof (cost_get_by_index_bound t i Hk). lia. Qed.

(** * Bounds by the height: proofs *)
Theorem cost_path_to_leaf_bound t k : heights_ok t -> cost_path_to_leaf t k <= 2 * height t.
Proof. intros Hk. rewrite cost_path_to_leaf_exact. pose proof (depth_le_height t k Hk). lia. Qed.

Lemma cost_path_to_leaf_nonneg t k : 0 <= cost_path_to_leaf t k.
Proof. rewrite cost_path_to_leaf_exact. unfold depth. lia. Qed.

Theorem cost_membership_proof_bound t k : heights_ok t -> cost_membership_proof t k <= 2 * height t.
Proof. apply cost_path_to_leaf_bound. Qed.

(** simple bound: one descent of [get], two of [getByIndex], two of [pathToLeaf] *)
Theorem cost_nonmembership_proof_bound t k :
  heights_ok t -> cost_nonmembership_proof t k <= 9 * height t.
Proof.
  intros Hk. unfold cost_nonmembership_proof, cost_get_with_index, cost_create_existence_proof.
  pose proof (heights_ok_nonneg t Hk) as H0.
  pose proof (cost_get_bound t k Hk) as G. pose proof (cost_get_nonneg t k) as G0.
  destruct (get t k) as [idx val]. destruct val as [v|]; [lia|].
  set (leftkey := match get_by_index t (idx - 1) with Some (k0, _) => k0 | None => [] end).
  pose proof (cost_path_to_leaf_bound t leftkey Hk) as PL.
  pose proof (cost_path_to_leaf_nonneg t leftkey) as PL0.
  pose proof (cost_get_by_index_bound t (idx - 1) Hk) as IL.
  pose proof (cost_get_by_index_nonneg t (idx - 1)) as IL0.
  pose proof (cost_get_by_index_bound t idx Hk) as IR.
  destruct (1 <=? idx).
  - destruct (path_ok t leftkey); cbn [negb]; [|lia].
    destruct (get_by_index t idx) as [[rk rv]|]; [|lia].
    pose proof (cost_path_to_leaf_bound t rk Hk). lia.
  - cbn [negb]. destruct (get_by_index t idx) as [[rk rv]|]; [|lia].
    pose proof (cost_path_to_leaf_bound t rk Hk). lia.
Qed.

Theorem cost_get_proof_bound_10h t k : heights_ok t -> cost_get_proof t k <= 10 * height t.
Proof.
  intros Hk. unfold cost_get_proof.
  pose proof (heights_ok_nonneg t Hk). pose proof (cost_has_bound t k Hk).
  destruct (has t k).
  - pose proof (cost_membership_proof_bound t k Hk). lia.
  - pose proof (cost_nonmembership_proof_bound t k Hk). lia.
Qed.

(** the bound of C11 (a [node] is a non-empty tree; the empty tree makes no read at all) *)
Theorem cost_get_proof_bound t k : heights_ok t -> cost_get_proof t k <= 10 * height t + 10.
Proof. intros Hk. pose proof (cost_get_proof_bound_10h t k Hk). lia. Qed.

(** present key: [Has] + one [pathToLeaf] *)
Theorem cost_get_proof_member_bound t k :
  heights_ok t -> has t k = true -> cost_get_proof t k <= 3 * height t.
Proof.
  intros Hk Hh. unfold cost_get_proof. rewrite Hh.
  pose proof (cost_has_bound t k Hk). pose proof (cost_membership_proof_bound t k Hk). lia.
Qed.

(** ** The sharp bound for non-membership: the two neighbours cannot both be expensive *)

(** the leftmost leaf is reached by left steps only *)
Lemma cost_get_by_index_0 t : heights_ok t -> sizes_pos t -> cost_get_by_index t 0 <= height t.
Proof.
  induction t as [|nk h s m l IHl r IHr]; cbn [heights_ok sizes_pos cost_get_by_index height]; [lia|].
  intros (Hl & Hr & Hh) (Sl & Sr & Sp).
  replace (0 <? size l) with true by (symmetry; apply Z.ltb_lt; lia).
  specialize (IHl Hl Sl). lia.
Qed.

(** adjacent indices [i-1], [i] with [i] in range: the two descents share a prefix, then the
    left one continues to the right and the right one to the left only *)
Lemma cost_get_by_index_adjacent t i :
  heights_ok t -> sizes_pos t -> 1 <= height t -> get_by_index t i <> None ->
  cost_get_by_index t (i - 1) + cost_get_by_index t i <= 4 * height t - 1.
Proof.
  revert i. induction t as [|nk h s m l IHl r IHr]; intros i Hk Sp Hpos Hin.
  - cbn [height] in Hpos. lia.
  - cbn [heights_ok] in Hk. destruct Hk as (Hl & Hr & Hh).
    cbn [sizes_pos] in Sp. destruct Sp as (Sl & Sr & Spl).
    pose proof (heights_ok_nonneg l Hl) as Nl. pose proof (heights_ok_nonneg r Hr) as Nr.
    cbn [get_by_index] in Hin. cbn [cost_get_by_index height].
    destruct (i <? size l) eqn:C1.
    + (* both descents go left *)
      apply Z.ltb_lt in C1.
      replace (i - 1 <? size l) with true by (symmetry; apply Z.ltb_lt; lia).
      destruct l as [lk lv lm|lk lh ls lm ll lr].
      * cbn [cost_get_by_index]. lia.
      * pose proof (heights_ok_inner_pos _ _ _ _ _ _ Hl) as Lp.
        specialize (IHl i Hl Sl Lp Hin). cbn [height] in *. lia.
    + apply Z.ltb_ge in C1. destruct (i - 1 <? size l) eqn:C2.
      * (* they part here: i = size l *)
        apply Z.ltb_lt in C2. replace (i - size l) with 0 by lia.
        pose proof (cost_get_by_index_0 r Hr Sr).
        pose proof (cost_get_by_index_bound l (i - 1) Hl). lia.
      * (* both descents go right *)
        apply Z.ltb_ge in C2.
        destruct r as [rk rv rm|rk rh rs rm rl rr].
        -- cbn [get_by_index] in Hin. destruct (i - size l =? 0) eqn:E; [|congruence].
           apply Z.eqb_eq in E. lia.
        -- pose proof (heights_ok_inner_pos _ _ _ _ _ _ Hr) as Rp.
           specialize (IHr (i - size l) Hr Sr Rp Hin).
           replace (i - 1 - size l) with (i - size l - 1) by lia. cbn [height] in *. lia.
Qed.

Theorem cost_nonmembership_proof_sharp t k :
  heights_ok t -> sizes_pos t -> 1 <= height t ->
  cost_nonmembership_proof t k <= 9 * height t - 1.
Proof.
  intros Hk Sp Hpos. unfold cost_nonmembership_proof, cost_get_with_index, cost_create_existence_proof.
  pose proof (cost_get_bound t k Hk) as G. pose proof (cost_get_nonneg t k) as G0.
  destruct (get t k) as [idx val]. destruct val as [v|]; [lia|].
  set (leftkey := match get_by_index t (idx - 1) with Some (k0, _) => k0 | None => [] end).
  pose proof (cost_path_to_leaf_bound t leftkey Hk) as PL.
  pose proof (cost_path_to_leaf_nonneg t leftkey) as PL0.
  pose proof (cost_get_by_index_bound t (idx - 1) Hk) as IL.
  pose proof (cost_get_by_index_nonneg t (idx - 1)) as IL0.
  pose proof (cost_get_by_index_bound t idx Hk) as IR.
  pose proof (cost_get_by_index_adjacent t idx Hk Sp Hpos) as AD.
  destruct (1 <=? idx).
  - destruct (path_ok t leftkey); cbn [negb]; [|lia].
    destruct (get_by_index t idx) as [[rk rv]|]; [|lia].
    pose proof (cost_path_to_leaf_bound t rk Hk).
    assert (Some (rk, rv) <> None) as NN by discriminate. specialize (AD NN). lia.
  - cbn [negb]. destruct (get_by_index t idx) as [[rk rv]|]; [|lia].
    pose proof (cost_path_to_leaf_bound t rk Hk). lia.
Qed.

Lemma cost_nonmembership_proof_nonneg t k : 0 <= cost_nonmembership_proof t k.
Proof.
  unfold cost_nonmembership_proof, cost_get_with_index, cost_create_existence_proof.
  pose proof (cost_get_nonneg t k) as G0.
  destruct (get t k) as [idx val]. destruct val as [v|]; [lia|].
  set (leftkey := match get_by_index t (idx - 1) with Some (k0, _) => k0 | None => [] end).
  pose proof (cost_path_to_leaf_nonneg t leftkey) as PL0.
  pose proof (cost_get_by_index_nonneg t (idx - 1)) as IL0.
  pose proof (cost_get_by_index_nonneg t idx) as IR0.
  destruct (1 <=? idx).
  - destruct (path_ok t leftkey); cbn [negb]; [|lia].
    destruct (get_by_index t idx) as [[rk rv]|]; [|lia].
    pose proof (cost_path_to_leaf_nonneg t rk). lia.
  - cbn [negb]. destruct (get_by_index t idx) as [[rk rv]|]; [|lia].
    pose proof (cost_path_to_leaf_nonneg t rk). lia.
Qed.

Lemma cost_get_proof_nonneg t k : 0 <= cost_get_proof t k.
Proof.
  unfold cost_get_proof. pose proof (cost_has_le_get t k). destruct (has t k).
  - pose proof (cost_path_to_leaf_nonneg t k).
    unfold cost_membership_proof, cost_create_existence_proof. lia.
  - pose proof (cost_nonmembership_proof_nonneg t k). lia.
Qed.

(** a tree of height 0 is a single leaf: nothing is read *)
Lemma cost_get_proof_height_0 t k : heights_ok t -> height t = 0 -> cost_get_proof t k = 0.
Proof.
  intros Hk H0. pose proof (cost_get_proof_bound_10h t k Hk). pose proof (cost_get_proof_nonneg t k). lia.
Qed.

(** the tightest bounds of the form [a * height t + b]:
    membership (present key): a = 3, b = 0 ([cost_get_proof_member_bound], attained:
    [cost_get_proof_member_attained]); non-membership: a = 10, b = -1 for height >= 1
    (attained for every height: [cost_get_proof_sharp_attained]), and 0 at height 0, i.e.
    a = 10, b = 0 over all trees *)
Theorem cost_get_proof_sharp t k :
  heights_ok t -> sizes_pos t -> 1 <= height t -> cost_get_proof t k <= 10 * height t - 1.
Proof.
  intros Hk Sp Hpos. unfold cost_get_proof. pose proof (cost_has_bound t k Hk).
  destruct (has t k).
  - pose proof (cost_membership_proof_bound t k Hk). lia.
  - pose proof (cost_nonmembership_proof_sharp t k Hk Sp Hpos). lia.
Qed.

(** * Corollaries for [wf] trees (the invariant of every reachable tree, C11_avl_reachable) *)
Corollary cost_get_bound_wf t k : wf t -> cost_get t k <= height t.
Proof. intros W. apply cost_get_bound, wf_heights_ok, W. Qed.
Corollary cost_has_bound_wf t k : wf t -> cost_has t k <= height t.
Proof. intros W. apply cost_has_bound, wf_heights_ok, W. Qed.
Corollary cost_get_with_index_bound_wf t k : wf t -> cost_get_with_index t k <= height t.
Proof. intros W. apply cost_get_with_index_bound, wf_heights_ok, W. Qed.
Corollary cost_get_by_index_bound_wf t i : wf t -> cost_get_by_index t i <= 2 * height t.
Proof. intros W. apply cost_get_by_index_bound, wf_heights_ok, W. Qed.
Corollary cost_get_proof_bound_wf t k : wf t -> cost_get_proof t k <= 10 * height t + 10.
Proof. intros W. apply cost_get_proof_bound, wf_heights_ok, W. Qed.
Corollary cost_get_proof_sharp_wf t k :
  wf t -> 1 <= height t -> cost_get_proof t k <= 10 * height t - 1.
Proof. intros W. apply cost_get_proof_sharp; [apply wf_heights_ok|apply wf_sizes_pos]; exact W. Qed.

(** the whole C11 sentence at once *)
Theorem cost_C11 t :
  wf t ->
  (forall k, cost_get t k <= 2 * height t + 2) /\
  (forall k, cost_has t k <= 2 * height t + 2) /\
  (forall k, cost_get_with_index t k <= 2 * height t + 2) /\
  (forall i, cost_get_by_index t i <= 2 * height t + 2) /\
  (forall k, cost_membership_proof t k <= 10 * height t + 10) /\
  (forall k, cost_nonmembership_proof t k <= 10 * height t + 10) /\
  (forall k, cost_get_proof t k <= 10 * height t + 10).
Proof.
  intros W. pose proof (wf_heights_ok t W) as Hk. pose proof (heights_ok_nonneg t Hk).
  repeat split; intros x.
  - apply cost_get_bound_C11, Hk.
  - apply cost_has_bound_C11, Hk.
  - apply cost_get_with_index_bound_C11, Hk.
  - apply cost_get_by_index_bound_C11, Hk.
  - pose proof (cost_membership_proof_bound t x Hk). lia.
  - pose proof (cost_nonmembership_proof_bound t x Hk). lia.
  - apply cost_get_proof_bound, Hk.
Qed.

(** * Tightness: a right spine attains 10h - 1 at every height *)
Lemma bcmp_single x y : bcmp [x] [y] = (x ?= y)%N.
Proof. cbn [bcmp]. destruct (x ?= y)%N; reflexivity. Qed.
Lemma blt_single x y : blt [x] [y] = (x <? y)%N.
Proof. unfold blt, N.ltb. rewrite bcmp_single. reflexivity. Qed.
Lemma beq_single x y : beq [x] [y] = (x =? y)%N.
Proof. unfold beq, N.eqb. rewrite bcmp_single. destruct (N.compare_spec x y) as [E|L|G].
  - subst. destruct y; cbn; [reflexivity|apply eq_sym, Pos.eqb_refl].
  - destruct x, y; cbn; try reflexivity; try lia. symmetry. apply Pos.eqb_neq. lia.
  - destruct x, y; cbn; try reflexivity; try lia. symmetry. apply Pos.eqb_neq. lia.
Qed.
Lemma lt_single x y : (x < y)%N -> [x] <b [y].
Proof. intros L. apply blt_true. rewrite blt_single. apply N.ltb_lt, L. Qed.
Lemma le_single x y : (x <= y)%N -> [x] <=b [y].
Proof. intros L. apply blt_false. rewrite blt_single. apply N.ltb_ge, L. Qed.

Definition lf (x : N) : node := Leaf [x] [x] (Meta 1 1 []).

(** leaves [a], [a+1], ..., [a+n-1] hanging to the left of a right spine that ends in the pair
    [a+n], [a+n+2]; the key [a+n+1] is absent *)
Fixpoint spine (n : nat) (a : N) : node :=
  match n with
  | O => Inner [a + 2]%N 1 2 (Meta 1 1 []) (lf a) (lf (a + 2))
  | S n' => Inner [a + 1]%N (Z.of_nat n' + 2) (Z.of_nat n' + 3) (Meta 1 1 []) (lf a) (spine n' (a + 1))
  end.

Lemma spine_height n a : height (spine n a) = Z.of_nat n + 1.
Proof. destruct n; cbn [spine height]; lia. Qed.
Lemma spine_size n a : size (spine n a) = Z.of_nat n + 2.
Proof. destruct n; cbn [spine size]; lia. Qed.
Lemma spine_min_key n a : min_key (spine n a) = [a].
Proof. destruct n; reflexivity. Qed.
Lemma spine_keys_ge n : forall a b, (b <= a)%N -> keys_all (fun x => [b] <=b x) (spine n a).
Proof.
  induction n as [|n IH]; intros a b L; cbn [spine keys_all lf].
  - split; apply le_single; lia.
  - split; [apply le_single; lia|apply IH; lia].
Qed.
Lemma spine_keys_wf n : forall a, (a + N.of_nat n + 2 < 256)%N -> keys_all well_formed (spine n a).
Proof.
  unfold well_formed. induction n as [|n IH]; intros a L; cbn [spine keys_all lf].
  - split; repeat constructor; lia.
  - split; [repeat constructor; lia|apply IH; lia].
Qed.
Lemma spine_wf n : forall a, wf (spine n a).
Proof.
  induction n as [|n IH]; intros a; cbn [spine wf lf keys_all min_key height size].
  - repeat split; try lia. apply lt_single; lia. apply le_single; lia.
  - rewrite spine_height, spine_size, spine_min_key. repeat split; try lia.
    + apply IH.
    + apply lt_single; lia.
    + apply spine_keys_ge; lia.
Qed.

(** a key [x >= a+n] is searched down the whole spine *)
Lemma spine_cost_get n : forall a x, (a + N.of_nat n <= x)%N -> cost_get (spine n a) [x] = Z.of_nat n + 1.
Proof.
  induction n as [|n IH]; intros a x L; cbn [spine cost_get lf].
  - destruct (blt [x] [a + 2]%N); reflexivity.
  - rewrite blt_single. replace (x <? a + 1)%N with false by (symmetry; apply N.ltb_ge; lia).
    rewrite IH by lia. lia.
Qed.

Lemma spine_has n : forall a, has (spine n a) [a + N.of_nat n + 1]%N = false /\
                           cost_has (spine n a) [a + N.of_nat n + 1]%N = Z.of_nat n + 1.
Proof.
  induction n as [|n IH]; intros a; cbn [spine has cost_has nkey lf].
  - rewrite !beq_single, blt_single.
    replace (a + 2 =? a + N.of_nat 0 + 1)%N with false by (symmetry; apply N.eqb_neq; lia).
    replace (a + N.of_nat 0 + 1 <? a + 2)%N with true by (symmetry; apply N.ltb_lt; lia).
    replace (a =? a + N.of_nat 0 + 1)%N with false by (symmetry; apply N.eqb_neq; lia).
    split; reflexivity.
  - rewrite !beq_single, blt_single.
    replace (a + 1 =? a + N.of_nat (S n) + 1)%N with false by (symmetry; apply N.eqb_neq; lia).
    replace (a + N.of_nat (S n) + 1 <? a + 1)%N with false by (symmetry; apply N.ltb_ge; lia).
    replace (a + N.of_nat (S n) + 1)%N with (a + 1 + N.of_nat n + 1)%N by lia.
    destruct (IH (a + 1)%N) as [E1 E2]. rewrite E1, E2. split; [reflexivity|lia].
Qed.

Lemma spine_get n : forall a, get (spine n a) [a + N.of_nat n + 1]%N = (Z.of_nat n + 1, None).
Proof.
  induction n as [|n IH]; intros a; cbn [spine get lf].
  - rewrite blt_single.
    replace (a + N.of_nat 0 + 1 <? a + 2)%N with true by (symmetry; apply N.ltb_lt; lia).
    rewrite bcmp_single. replace (a ?= a + N.of_nat 0 + 1)%N with Lt by (symmetry; apply N.compare_lt_iff; lia).
    reflexivity.
  - rewrite blt_single.
    replace (a + N.of_nat (S n) + 1 <? a + 1)%N with false by (symmetry; apply N.ltb_ge; lia).
    replace (a + N.of_nat (S n) + 1)%N with (a + 1 + N.of_nat n + 1)%N by lia.
    rewrite IH, spine_size. f_equal. lia.
Qed.

Lemma spine_index_left n : forall a,
  get_by_index (spine n a) (Z.of_nat n) = Some ([a + N.of_nat n]%N, [a + N.of_nat n]%N) /\
  cost_get_by_index (spine n a) (Z.of_nat n) = 2 * Z.of_nat n + 1.
Proof.
  induction n as [|n IH]; intros a; cbn [spine get_by_index cost_get_by_index lf size].
  - cbn. rewrite N.add_0_r. split; reflexivity.
  - replace (Z.of_nat (S n) <? 1) with false by (symmetry; apply Z.ltb_ge; lia).
    replace (Z.of_nat (S n) - 1) with (Z.of_nat n) by lia.
    destruct (IH (a + 1)%N) as [E1 E2]. rewrite E1, E2.
    replace (a + 1 + N.of_nat n)%N with (a + N.of_nat (S n))%N by lia. split; [reflexivity|lia].
Qed.

Lemma spine_index_right n : forall a,
  get_by_index (spine n a) (Z.of_nat n + 1) = Some ([a + N.of_nat n + 2]%N, [a + N.of_nat n + 2]%N) /\
  cost_get_by_index (spine n a) (Z.of_nat n + 1) = 2 * Z.of_nat n + 2.
Proof.
  induction n as [|n IH]; intros a; cbn [spine get_by_index cost_get_by_index lf size].
  - cbn. rewrite N.add_0_r. split; reflexivity.
  - replace (Z.of_nat (S n) + 1 <? 1) with false by (symmetry; apply Z.ltb_ge; lia).
    replace (Z.of_nat (S n) + 1 - 1) with (Z.of_nat n + 1) by lia.
    destruct (IH (a + 1)%N) as [E1 E2]. rewrite E1, E2.
    replace (a + 1 + N.of_nat n + 2)%N with (a + N.of_nat (S n) + 2)%N by lia. split; [reflexivity|lia].
Qed.

Lemma spine_path_ok n : forall a, path_ok (spine n a) [a + N.of_nat n]%N = true.
Proof.
  unfold path_ok. induction n as [|n IH]; intros a; cbn [spine path_to_leaf lf].
  - rewrite blt_single.
    replace (a + N.of_nat 0 <? a + 2)%N with true by (symmetry; apply N.ltb_lt; lia).
    cbn [snd]. rewrite N.add_0_r, beq_single. apply N.eqb_refl.
  - rewrite blt_single.
    replace (a + N.of_nat (S n) <? a + 1)%N with false by (symmetry; apply N.ltb_ge; lia).
    replace (a + N.of_nat (S n))%N with (a + 1 + N.of_nat n)%N by lia.
    specialize (IH (a + 1)%N).
    destruct (path_to_leaf (fun _ => []) 0 (spine n (a + 1)) [(a + 1 + N.of_nat n)%N]) as [[p l] ok].
    exact IH.
Qed.

Lemma spine_cost_path n a x :
  (a + N.of_nat n <= x)%N -> cost_path_to_leaf (spine n a) [x] = 2 * Z.of_nat n + 2.
Proof.
  intros L. rewrite cost_path_to_leaf_exact, <- cost_get_exact, spine_cost_get by exact L. lia.
Qed.

Theorem spine_cost_get_proof n a :
  cost_get_proof (spine n a) [a + N.of_nat n + 1]%N = 10 * (Z.of_nat n + 1) - 1.
Proof.
  unfold cost_get_proof. destruct (spine_has n a) as [E1 E2]. rewrite E1, E2.
  unfold cost_nonmembership_proof, cost_get_with_index, cost_create_existence_proof.
  rewrite spine_get, spine_cost_get by lia.
  replace (1 <=? Z.of_nat n + 1) with true by (symmetry; apply Z.leb_le; lia).
  replace (Z.of_nat n + 1 - 1) with (Z.of_nat n) by lia.
  destruct (spine_index_left n a) as [L1 L2]. destruct (spine_index_right n a) as [R1 R2].
  rewrite L1, L2, spine_path_ok, R1, R2. cbv beta iota zeta. cbn [negb].
  rewrite !spine_cost_path by lia. lia.
Qed.

Theorem cost_get_proof_sharp_attained :
  forall n : nat, exists t k,
    wf t /\ height t = Z.of_nat n + 1 /\ has t k = false /\
    ((n <= 125)%nat -> keys_all well_formed t /\ well_formed k) /\
    cost_get_proof t k = 10 * height t - 1.
Proof.
  intros n. exists (spine n 0), [0 + N.of_nat n + 1]%N.
  split; [apply spine_wf|]. split; [apply spine_height|].
  split; [apply (spine_has n 0)|]. split.
  - intros L. split; [apply spine_keys_wf; lia|repeat constructor; lia].
  - rewrite spine_height. apply spine_cost_get_proof.
Qed.

(** ** a left spine attains 3h for a present key (the least key, the only leaf key of a [wf]
    tree that is not a routing key) *)
Fixpoint lspine (n : nat) (a : N) : node :=
  match n with
  | O => Inner [a + 1]%N 1 2 (Meta 1 1 []) (lf a) (lf (a + 1))
  | S n' => Inner [a + N.of_nat n' + 2]%N (Z.of_nat n' + 2) (Z.of_nat n' + 3) (Meta 1 1 [])
              (lspine n' a) (lf (a + N.of_nat n' + 2))
  end.

Lemma lspine_height n a : height (lspine n a) = Z.of_nat n + 1.
Proof. destruct n; cbn [lspine height]; lia. Qed.
Lemma lspine_size n a : size (lspine n a) = Z.of_nat n + 2.
Proof. destruct n; cbn [lspine size]; lia. Qed.
Lemma lspine_keys_lt n : forall a b, (a + N.of_nat n + 1 < b)%N -> keys_all (fun x => x <b [b]) (lspine n a).
Proof.
  induction n as [|n IH]; intros a b L; cbn [lspine keys_all lf].
  - split; apply lt_single; lia.
  - split; [apply IH; lia|apply lt_single; lia].
Qed.
Lemma lspine_keys_wf n : forall a, (a + N.of_nat n + 1 < 256)%N -> keys_all well_formed (lspine n a).
Proof.
  unfold well_formed. induction n as [|n IH]; intros a L; cbn [lspine keys_all lf].
  - split; repeat constructor; lia.
  - split; [apply IH; lia|repeat constructor; lia].
Qed.
Lemma lspine_wf n : forall a, wf (lspine n a).
Proof.
  induction n as [|n IH]; intros a; cbn [lspine wf lf keys_all min_key height size].
  - repeat split; try lia. apply lt_single; lia. apply le_single; lia.
  - rewrite lspine_height, lspine_size. repeat split; try lia.
    + apply IH.
    + apply lspine_keys_lt; lia.
    + apply le_single; lia.
Qed.
Lemma lspine_has n : forall a, has (lspine n a) [a] = true /\ cost_has (lspine n a) [a] = Z.of_nat n + 1.
Proof.
  induction n as [|n IH]; intros a; cbn [lspine has cost_has nkey lf].
  - rewrite !beq_single, blt_single.
    replace (a + 1 =? a)%N with false by (symmetry; apply N.eqb_neq; lia).
    replace (a <? a + 1)%N with true by (symmetry; apply N.ltb_lt; lia).
    rewrite N.eqb_refl. split; reflexivity.
  - rewrite !beq_single, blt_single.
    replace (a + N.of_nat n + 2 =? a)%N with false by (symmetry; apply N.eqb_neq; lia).
    replace (a <? a + N.of_nat n + 2)%N with true by (symmetry; apply N.ltb_lt; lia).
    destruct (IH a) as [E1 E2]. rewrite E1, E2. split; [reflexivity|lia].
Qed.
Lemma lspine_cost_get n : forall a, cost_get (lspine n a) [a] = Z.of_nat n + 1.
Proof.
  induction n as [|n IH]; intros a; cbn [lspine cost_get lf].
  - destruct (blt [a] [a + 1]%N); reflexivity.
  - rewrite blt_single. replace (a <? a + N.of_nat n + 2)%N with true by (symmetry; apply N.ltb_lt; lia).
    rewrite IH. lia.
Qed.

Theorem cost_get_proof_member_attained :
  forall n : nat, exists t k,
    wf t /\ height t = Z.of_nat n + 1 /\ has t k = true /\
    ((n <= 125)%nat -> keys_all well_formed t /\ well_formed k) /\
    cost_get_proof t k = 3 * height t.
Proof.
  intros n. exists (lspine n 0), [0%N].
  split; [apply lspine_wf|]. split; [apply lspine_height|].
  destruct (lspine_has n 0) as [E1 E2]. split; [exact E1|]. split.
  - intros L. split; [apply lspine_keys_wf; lia|repeat constructor; lia].
  - unfold cost_get_proof. rewrite E1, E2, lspine_height.
    unfold cost_membership_proof, cost_create_existence_proof.
    rewrite cost_path_to_leaf_exact, <- cost_get_exact, lspine_cost_get. lia.
Qed.

(** * Examples: 7 keys [10], [20], ..., [70] inserted one by one with [Tree.set] (the first key
    makes the root leaf, as MutableTree.Set on the empty tree does); height 3:
<<
                     [50]
            [30]               [60]
       [20]      [40]      50       [70]
      10  20    30  40             60  70
>> *)
Definition ins7 (t : node) (k : N) : node := fst (set t [k] [k; k]).
Definition t7 : node :=
  fold_left ins7 [20; 30; 40; 50; 60; 70]%N (Leaf [10%N] [10%N; 10%N] new_meta).

Example t7_shape :
  wf t7 /\ avl t7 /\ height t7 = 3 /\ size t7 = 7 /\
  map fst (elems t7) = [[10]; [20]; [30]; [40]; [50]; [60]; [70]]%N.
Proof. vm_compute. repeat split; try discriminate. Qed.

(** Get: the depth of the leaf reached (present [10], [50]; absent below / middle / above) *)
Example t7_cost_get :
  map (cost_get t7) [[10]; [50]; [5]; [35]; [80]]%N = [3; 2; 3; 3; 3].
Proof. vm_compute. reflexivity. Qed.

(** Has: stops at a routing key ([30] after 1 read, the root key [50] at once); an absent key
    costs the full descent *)
Example t7_cost_has :
  map (cost_has t7) [[10]; [20]; [30]; [50]; [5]; [35]; [80]]%N = [3; 2; 1; 0; 3; 3; 3].
Proof. vm_compute. reflexivity. Qed.

(** GetByIndex: 1 per left step, 2 per right step; index 6 (the last) costs 2h = 6, as does the
    out-of-range index 7; index -1 goes down the left edge *)
Example t7_cost_get_by_index :
  map (cost_get_by_index t7) [0; 1; 2; 3; 4; 5; 6; 7; -1] = [3; 4; 4; 5; 3; 5; 6; 6; 3].
Proof. vm_compute. reflexivity. Qed.

(** GetMembershipProof: twice the depth; the absent key [35] costs the same (error at the leaf) *)
Example t7_cost_membership :
  map (cost_membership_proof t7) [[10]; [50]; [70]; [35]]%N = [6; 4; 6; 6].
Proof. vm_compute. reflexivity. Qed.

(** GetNonMembershipProof: below the minimum (no left neighbour), in the middle, in the middle
    next to the last leaf, above the maximum (no right neighbour, but GetByIndex(7) is paid),
    and a present key (error after GetWithIndex) *)
Example t7_cost_nonmembership :
  map (cost_nonmembership_proof t7) [[5]; [35]; [65]; [80]; [10]]%N = [12; 24; 26; 21; 3].
Proof. vm_compute. reflexivity. Qed.

(** GetProof = Has + the selected proof: [10] attains 3h = 9, [65] attains 10h - 1 = 29 *)
Example t7_cost_get_proof :
  map (cost_get_proof t7) [[10]; [50]; [5]; [35]; [65]; [80]]%N = [9; 4; 15; 27; 29; 24] /\
  map (has t7) [[10]; [50]; [5]; [35]; [65]; [80]]%N = [true; true; false; false; false; false].
Proof. vm_compute. split; reflexivity. Qed.

(** the model's costs belong to proofs that are really produced (SHA-256 not needed: any [H]) *)
Example t7_proofs_exist :
  let H := fun _ : bytes => [] in
  (exists p, get_proof H 1 (Some t7) [10%N] = Some (PExist p)) /\
  (exists p, get_proof H 1 (Some t7) [65%N] = Some (PNonexist p)) /\
  get_membership_proof H 1 (Some t7) [35%N] = None /\
  get_nonmembership_proof H 1 (Some t7) [10%N] = None.
Proof. vm_compute. repeat split; eexists; reflexivity. Qed.

Print Assumptions cost_get_bound.
Print Assumptions cost_has_bound.
Print Assumptions cost_get_with_index_bound.
Print Assumptions cost_get_by_index_bound.
Print Assumptions cost_get_by_index_le_height_refuted.
Print Assumptions cost_get_exact.
Print Assumptions cost_get_proof_bound.
Print Assumptions cost_get_proof_sharp.
Print Assumptions cost_get_proof_member_bound.
Print Assumptions cost_get_proof_sharp_attained.
Print Assumptions cost_get_proof_member_attained.
Print Assumptions cost_C11.
