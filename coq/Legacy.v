(** Databases in the legacy (pre-1.0) format: executable model of the read path.
    Go code: node.go MakeLegacyNode / Node.GetKey (legacy: the hash), nodedb.go GetNode (a
    32-byte key selects the legacy table), GetRoot (legacy root fallback), mutable_tree.go
    SaveVersion (the [isLegacy] re-save of a referenced legacy root), node.go writeBytes
    (mode bits for legacy children).

    A legacy node is stored under its hash and refers to its children by their hashes; its
    version field is the version that created it.  A loaded legacy node is an ordinary Node
    with [nodeKey = (version, 0)], [hash] = the key it was fetched by, [isLegacy = true]. *)
From IAVL Require Import Bytes Varint Tree MTree Codec.
Local Open Scope Z_scope.

(** the legacy node table: hash -> node (decoded), hash -> bytes (as stored) *)
Definition lstore := list (bytes * raw_legacy_node).
Definition lbstore := list (bytes * bytes).
(** legacy root table: version -> root hash ([[]] = empty tree) *)
Definition lroots := list (Z * bytes).

Definition bytes_eqb (a b : bytes) : bool := if list_eq_dec N.eq_dec a b then true else false.

Fixpoint lfind {A} (k : bytes) (st : list (bytes * A)) : option A :=
  match st with
  | [] => None
  | (k', a) :: rest => if bytes_eqb k k' then Some a else lfind k rest
  end.

Definition lstore_bytes (st : lstore) : lbstore :=
  map (fun p => (fst p, encode_legacy_node (snd p))) st.

Section Legacy.
  Variable H : bytes -> bytes.

  (** what the legacy library wrote for a persisted tree: one entry per node, keyed by the
      node's hash, children by hash, version field = the node's version *)
  Definition legacy_raw (t : node) : raw_legacy_node :=
    match t with
    | Leaf k v m => mk_raw_legacy_node 0 1 (ver m) k (Some v) [] []
    | Inner k h s m l r =>
        mk_raw_legacy_node h s (ver m) k None (pure_hash H 0 l) (pure_hash H 0 r)
    end.

  Fixpoint legacy_nodes (t : node) : lstore :=
    match t with
    | Leaf _ _ _ => [(pure_hash H 0 t, legacy_raw t)]
    | Inner _ _ _ _ l r => (pure_hash H 0 t, legacy_raw t) :: legacy_nodes l ++ legacy_nodes r
    end.

  Definition legacy_encode_tree (t : node) : lstore * bytes := (legacy_nodes t, pure_hash H 0 t).

  (** the legacy root entry of a version *)
  Definition legacy_root_value (t : option node) : bytes :=
    match t with None => [] | Some n => pure_hash H 0 n end.
End Legacy.

(** GetNode(hash) -> MakeLegacyNode, then the children on demand: the whole subtree.
    [None]: a node is missing, does not decode, or the fuel ran out. *)
Fixpoint legacy_load (fuel : nat) (st : lbstore) (hash : bytes) : option node :=
  match fuel with
  | O => None
  | S f =>
      match lfind hash st with
      | None => None
      | Some buf =>
          match decode_legacy_node hash buf with
          | DOk n =>
              if ln_height n =? 0 then
                match ln_value n with
                | Some v => Some (Leaf (ln_key n) v (Meta (ln_version n) 0 hash))
                | None => None
                end
              else
                match legacy_load f st (ln_left n), legacy_load f st (ln_right n) with
                | Some l, Some r =>
                    Some (Inner (ln_key n) (ln_height n) (ln_size n) (Meta (ln_version n) 0 hash) l r)
                | _, _ => None
                end
          | _ => None
          end
      end
  end.

(** opening a legacy version: GetRoot's legacy fallback, then the tree *)
Definition legacy_open (roots : lroots) (st : lbstore) (version : Z) : option (option node) :=
  match MTree.lookup version roots with
  | None => None                                   (* ErrVersionDoesNotExist *)
  | Some [] => Some None                           (* empty root *)
  | Some h =>
      match legacy_load (S (length st)) st h with
      | Some t => Some (Some t)
      | None => None
      end
  end.

(** GetNode on a mixed database: a 32-byte key is a legacy hash, anything else a new-format
    node key, with the (version, 0) fallback for a nonce-1 key re-keyed by pruning. *)
Inductive fetch_res := FFound (legacy : bool) (buf : bytes) | FMissing | FPanic.

Definition fetch_any (newst legst : lbstore) (nk : bytes) : fetch_res :=
  if (length nk =? 32)%nat then
    match lfind nk legst with Some b => FFound true b | None => FMissing end
  else
    match lfind nk newst with
    | Some b => FFound false b
    | None =>
        match parse_node_key nk with
        | DOk (v, n) =>
            if n =? 1 then
              match lfind (node_key_bytes v 0) newst with
              | Some b => FFound false b
              | None => FMissing
              end
            else FMissing
        | _ => FPanic
        end
    end.

(** SaveVersion on an unchanged legacy root: [SaveRoot(version, root.nodeKey)] and
    [SaveNode(root)] with [isLegacy := false]: the node is written in the new format, children
    still legacy hashes, under ITS node key, which for every legacy node is (version field, 0). *)
Definition resave_key (n : raw_legacy_node) : Z * Z := (ln_version n, 0).

Definition resave_entry (hash : bytes) (n : raw_legacy_node) : bytes * bytes :=
  (node_key_bytes (fst (resave_key n)) (snd (resave_key n)),
   encode_node (mk_raw_node (ln_height n) (ln_size n) (ln_key n) (ln_value n) hash
                            (if ln_height n =? 0 then RefNone else RefLegacy (ln_left n))
                            (if ln_height n =? 0 then RefNone else RefLegacy (ln_right n)))).

(** a batch Set on the new-format node table *)
Definition lput (e : bytes * bytes) (st : lbstore) : lbstore :=
  e :: filter (fun p => negb (bytes_eqb (fst p) (fst e))) st.
