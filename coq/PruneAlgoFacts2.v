(** PruneAlgoFacts2: the store layer of the refinement proof.

    - the write batch: [pwrite] either appends to the batch or writes the batch out first; the
      VIRTUAL store [Vof p] (disk + batch) always advances by exactly the write issued;
    - stores described by their lookups ([pst]), the physical store of a forest ([phys_pst]);
    - what a lagging disk must still offer to readers ([safe]), and the reads on such a disk
      ([get_root_safe], [get_node_keyok]). *)
From Coq Require Import Lia Sorted.
From IAVL Require Import Bytes Varint Tree VMap TreeFacts MTree MTreeFacts HashFacts VersionFacts
  Store StoreFacts PruneAlgo PruneAlgoFacts1.
Local Open Scope Z_scope.

(** ** Single writes *)
Lemma sapply_del st k : sapply st (del_node k) = mdel kcmp k st.
Proof. reflexivity. Qed.
Lemma sapply_set st k e : sapply st (set_node (k, e)) = mset kcmp k e st.
Proof. reflexivity. Qed.

Lemma sapply_all_snoc st ops o : sapply_all st (ops ++ [o]) = sapply (sapply_all st ops) o.
Proof. unfold sapply_all. rewrite fold_left_app. reflexivity. Qed.

Lemma sapply_sorted st o : msorted kcmp st -> msorted kcmp (sapply st o).
Proof.
  intros S. destruct o as [[k|k|] [e|e|e]|[k|k|]]; cbn [sapply]; try exact S.
  - apply (msorted_mset kcmp kcmp_ok), S.
  - apply (msorted_mdel kcmp), S.
Qed.

(** ** The batch *)
Definition Vof (p : pdb) : store := sapply_all (disk p) (pend p).

(** the two behaviours of a write *)
Lemma pwrite_cases p o :
  Vof (pwrite p o) = sapply (Vof p) o /\ effmode (pwrite p o) = effmode p /\
  ((disk (pwrite p o) = disk p /\ dhist (pwrite p o) = dhist p) \/
   (disk (pwrite p o) = Vof p /\ dhist (pwrite p o) = dhist p ++ [Vof p])).
Proof.
  unfold pwrite, Vof. cbv zeta.
  destruct (effmode p && negb (effective p o)).
  - cbn [disk pend effmode dhist]. rewrite sapply_all_snoc. auto.
  - destruct (sched p) as [|[|] rest]; cbn [disk pend effmode dhist].
    + rewrite sapply_all_snoc. auto.
    + split; [reflexivity|]. split; [reflexivity|]. right. auto.
    + rewrite sapply_all_snoc. auto.
Qed.

Lemma pflush_facts p :
  disk (pflush p) = Vof p /\ pend (pflush p) = [] /\ dhist (pflush p) = dhist p ++ [Vof p] /\
  Vof (pflush p) = Vof p.
Proof. unfold pflush, Vof. cbn. auto. Qed.

(** ** Stores described by their lookups *)
Definition pst (E : nodekey -> entry -> Prop) (V : store) : Prop :=
  msorted kcmp V /\ forall k e, mfind kcmp k V = Some e <-> E k e.

Lemma pst_ext E V V' : pst E V -> pst E V' -> V = V'.
Proof.
  intros [S1 F1] [S2 F2]. apply (msorted_ext kcmp kcmp_ok); auto.
  intros k. apply option_ext. intros e. rewrite F1, F2. tauto.
Qed.

Lemma pst_equiv E E' V : (forall k e, E k e <-> E' k e) -> pst E V -> pst E' V.
Proof. intros Q [S F]. split; [exact S|]. intros k e. rewrite F. apply Q. Qed.

Lemma kcmp_neq k k' : k <> k' -> kcmp k k' <> Eq.
Proof. intros N E. apply kcmp_Eq in E. contradiction. Qed.

Lemma pst_mdel E E' V k :
  pst E V -> (forall k' e, E' k' e <-> (k' <> k /\ E k' e)) -> pst E' (mdel kcmp k V).
Proof.
  intros [S F] Q. split; [apply (msorted_mdel kcmp), S|].
  intros k' e. rewrite (mfind_mdel kcmp kcmp_ok _ _ _ S), Q.
  destruct (kcmp k' k) eqn:C.
  - apply kcmp_Eq in C. subst. split; [discriminate|]. intros [N _]. contradiction.
  - rewrite F. split; [|tauto]. intros A. split; [|exact A]. intros ->.
    rewrite (c_refl kcmp kcmp_ok) in C. discriminate.
  - rewrite F. split; [|tauto]. intros A. split; [|exact A]. intros ->.
    rewrite (c_refl kcmp kcmp_ok) in C. discriminate.
Qed.

Lemma pst_mset E E' V k e0 :
  pst E V ->
  (forall k' e, E' k' e <-> ((k' = k /\ e = e0) \/ (k' <> k /\ E k' e))) ->
  pst E' (mset kcmp k e0 V).
Proof.
  intros [S F] Q. split; [apply (msorted_mset kcmp kcmp_ok), S|].
  intros k' e. rewrite (mfind_mset kcmp kcmp_ok), Q.
  destruct (kcmp k' k) eqn:C.
  - apply kcmp_Eq in C. subst. split.
    + intros A. left. split; [reflexivity|congruence].
    + intros [[_ ->]|[N _]]; [reflexivity|contradiction].
  - assert (N : k' <> k) by (intros ->; rewrite (c_refl kcmp kcmp_ok) in C; discriminate).
    rewrite F. split; [auto|]. intros [[A _]|[_ A]]; [contradiction|exact A].
  - assert (N : k' <> k) by (intros ->; rewrite (c_refl kcmp kcmp_ok) in C; discriminate).
    rewrite F. split; [auto|]. intros [[A _]|[_ A]]; [contradiction|exact A].
Qed.

(** deleting a key that is not there *)
Lemma pst_mdel_absent E V k : pst E V -> (forall e, ~ E k e) -> pst E (mdel kcmp k V).
Proof.
  intros P A. apply (pst_mdel E E V k P). intros k' e. split; [|tauto].
  intros X. split; [|exact X]. intros ->. exact (A e X).
Qed.

(** ** The physical key of a node *)
Definition in_r (r : list Z) (w : Z) : bool := existsb (Z.eqb w) r.

Lemma in_r_true r w : in_r r w = true <-> In w r.
Proof.
  unfold in_r. rewrite existsb_exists. split.
  - intros (x & I & E). apply Z.eqb_eq in E. subst. exact I.
  - intros I. exists w. split; [exact I|apply Z.eqb_refl].
Qed.

Definition pkey (r : list Z) (u : node) : nodekey :=
  if (nonce (nmeta u) =? 1) && in_r r (ver (nmeta u)) then (ver (nmeta u), 0) else node_key u.

Lemma pkey_cases r u :
  (nonce (nmeta u) = 1 /\ In (ver (nmeta u)) r /\ pkey r u = (ver (nmeta u), 0)) \/
  ((nonce (nmeta u) <> 1 \/ ~ In (ver (nmeta u)) r) /\ pkey r u = node_key u).
Proof.
  unfold pkey. destruct (nonce (nmeta u) =? 1) eqn:E1; cbn [andb].
  - apply Z.eqb_eq in E1. destruct (in_r r (ver (nmeta u))) eqn:E2.
    + apply in_r_true in E2. left. auto.
    + right. split; [|reflexivity]. right. intros I. apply in_r_true in I. congruence.
  - apply Z.eqb_neq in E1. right. auto.
Qed.

(** the entries of a physical store: live nodes under their physical keys, root entries *)
Definition pentry (L : node -> Prop) (ro : forest_t) (r : list Z) (k : nodekey) (e : entry) : Prop :=
  (exists u, L u /\ k = pkey r u /\ e = ENode (snode_of u)) \/
  (exists v rt, In (v, rt) ro /\ root_entry v rt = Some (k, e)).

(** ** [rekey] keeps the store sorted *)
Definition rkk (r : list Z) (p : nodekey * entry) : nodekey * entry :=
  match snd p with
  | ENode _ =>
      if (snd (fst p) =? 1) && existsb (Z.eqb (fst (fst p))) r
      then ((fst (fst p), 0), snd p) else p
  | _ => p
  end.

Lemma rekey_map r st : rekey r st = map (rkk r) st.
Proof. reflexivity. Qed.

Lemma rkk_fst r p : fst (fst (rkk r p)) = fst (fst p).
Proof.
  unfold rkk. destruct (snd p); try reflexivity.
  destruct ((snd (fst p) =? 1) && existsb (Z.eqb (fst (fst p))) r); reflexivity.
Qed.

Lemma rkk_snd_cases r p :
  snd (fst (rkk r p)) = snd (fst p) \/ (snd (fst p) = 1 /\ snd (fst (rkk r p)) = 0).
Proof.
  unfold rkk. destruct (snd p); auto.
  destruct (snd (fst p) =? 1) eqn:E; cbn [andb]; auto.
  destruct (existsb (Z.eqb (fst (fst p))) r); auto. apply Z.eqb_eq in E. auto.
Qed.

Lemma msorted_map_mono (g : nodekey * entry -> nodekey * entry) (st : store) :
  msorted kcmp st ->
  (forall p q, In p st -> In q st -> kcmp (fst p) (fst q) = Lt -> kcmp (fst (g p)) (fst (g q)) = Lt) ->
  msorted kcmp (map g st).
Proof.
  induction st as [|[k e] st IH]; intros S M; [exact I|].
  cbn [msorted map] in *. destruct S as [F S].
  destruct (g (k, e)) as [k' e'] eqn:G. split.
  - rewrite Forall_forall in *. intros q Iq. apply in_map_iff in Iq.
    destruct Iq as (q0 & <- & Iq0). specialize (F _ Iq0).
    specialize (M (k, e) q0 (or_introl eq_refl) (or_intror Iq0) F). rewrite G in M. exact M.
  - apply IH; [exact S|]. intros p q Ip Iq. apply M; right; assumption.
Qed.

Lemma rekey_sorted r st :
  msorted kcmp st -> (forall p, In p st -> 1 <= snd (fst p)) -> msorted kcmp (rekey r st).
Proof.
  intros S N. rewrite rekey_map. apply msorted_map_mono; [exact S|].
  intros p q Ip Iq C. apply kcmp_Lt in C. apply kcmp_Lt. unfold klt in *.
  rewrite !rkk_fst. pose proof (N _ Ip) as Np. pose proof (N _ Iq) as Nq.
  destruct (rkk_snd_cases r p) as [A|[A1 A2]]; destruct (rkk_snd_cases r q) as [B|[B1 B2]]; lia.
Qed.

Lemma rekey_In r st k e :
  In (k, e) (rekey r st) <-> exists k0, In (k0, e) st /\ (k, e) = rkk r (k0, e).
Proof.
  rewrite rekey_map, in_map_iff. split.
  - intros ([k0 e0] & Q & I0). assert (e0 = e).
    { unfold rkk in Q. cbn [fst snd] in Q. destruct e0; try (inversion Q; reflexivity).
      destruct ((snd k0 =? 1) && existsb (Z.eqb (fst k0)) r); inversion Q; reflexivity. }
    subst e0. exists k0. auto.
  - intros (k0 & I0 & Q). exists (k0, e). auto.
Qed.

(** ** The physical store of a forest, by lookups *)
Section Phys.
  Variable f : forest_t.
  Hypothesis FI : forest_inv f.
  Hypothesis ND : NoDup (map fst f).

  Lemma sub_of_nonce u : sub_of f u -> 1 <= nonce (nmeta u).
  Proof. intros (v & t & I & S). exact (fi_nonce f FI v t u I S). Qed.

  Lemma phys_sorted r : msorted kcmp (phys_of r f).
  Proof.
    apply rekey_sorted; [apply expected_sorted|].
    intros [k e] I. cbn [fst]. apply expected_In_reach in I. exact (reach_key_nonce f k e FI I).
  Qed.

  Lemma phys_In r k e : In (k, e) (phys_of r f) <-> pentry (sub_of f) f r k e.
  Proof.
    unfold phys_of. rewrite rekey_In. split.
    - intros (k0 & I0 & Q). apply (expected_In f k0 e FI ND), reach_In in I0.
      destruct I0 as [(u & Su & -> & ->)|(v & rt & I & E)].
      + left. exists u. split; [exact Su|]. split; [|reflexivity].
        unfold rkk in Q. cbn [fst snd node_key] in Q. unfold pkey, in_r.
        destruct ((nonce (nmeta u) =? 1) && existsb (Z.eqb (ver (nmeta u))) r);
          inversion Q; reflexivity.
      + right. exists v, rt. split; [exact I|].
        destruct (root_entry_Some _ _ _ _ E) as [_ [[_ ->]|(t & _ & -> & _)]];
          unfold rkk in Q; cbn [snd] in Q; inversion Q; subst; exact E.
    - intros [(u & Su & -> & ->)|(v & rt & I & E)].
      + exists (node_key u). split.
        * apply (expected_In f _ _ FI ND), reach_In. left. exists u. auto.
        * unfold rkk, pkey, in_r, node_key. cbn [fst snd].
          destruct ((nonce (nmeta u) =? 1) && existsb (Z.eqb (ver (nmeta u))) r); reflexivity.
      + exists k. split.
        * apply (expected_In f _ _ FI ND), reach_In. right. exists v, rt. auto.
        * destruct (root_entry_Some _ _ _ _ E) as [_ [[_ ->]|(t & _ & -> & _)]]; reflexivity.
  Qed.

  Theorem phys_pst r : pst (pentry (sub_of f) f r) (phys_of r f).
  Proof.
    split; [apply phys_sorted|]. intros k e. rewrite <- phys_In. split.
    - apply (In_mfind kcmp kcmp_ok).
    - apply (mfind_In kcmp kcmp_ok), phys_sorted.
  Qed.
End Phys.

(** ** What a (possibly lagging) disk must offer *)

(** the entry under the root key of a version *)
Definition rootinfo (d : store) (w : Z) (rt : option node) : Prop :=
  mfind kcmp (w, 1) d =
    Some (match rt with
          | None => EEmpty
          | Some t => if keqb (node_key t) (w, 1) then ENode (snode_of t) else ERef (node_key t)
          end).

Definition safe (L : node -> Prop) (sro : forest_t) (b : Z) (d : store) : Prop :=
  msorted kcmp d /\
  (forall u, L u -> get_node d (node_key u) = Some (snode_of u)) /\
  (forall u e, L u -> nonce (nmeta u) = 1 -> mfind kcmp (ver (nmeta u), 0) d = Some e ->
               e = ENode (snode_of u)) /\
  (forall w rt, In (w, rt) sro -> rootinfo d w rt) /\
  (forall w e, mfind kcmp (w, 0) d = Some e -> w < b).

Lemma safe_anti (L L' : node -> Prop) sro sro' b b' d :
  safe L sro b d -> (forall u, L' u -> L u) -> incl sro' sro -> b <= b' -> safe L' sro' b' d.
Proof.
  intros (S & A & B & C & D) HL HS Hb. split; [exact S|]. split; [auto|]. split; [|split].
  - intros u e Lu. apply B, HL, Lu.
  - intros w rt I. apply C, HS, I.
  - intros w e F. specialize (D w e F). lia.
Qed.

(** a key under which a node can be asked for *)
Definition keyok (d : store) (k : nodekey) (u : node) : Prop :=
  k = node_key u \/
  (nonce (nmeta u) = 1 /\ k = (ver (nmeta u), 0) /\ mfind kcmp k d <> None).

Lemma keyok_ver d k u : keyok d k u -> fst k = ver (nmeta u).
Proof. intros [->|(_ & -> & _)]; reflexivity. Qed.

Lemma get_node_keyok L sro b d k u :
  safe L sro b d -> L u -> keyok d k u -> get_node d k = Some (snode_of u).
Proof.
  intros (S & A & B & _) Lu [->|(N1 & -> & P)]; [apply A, Lu|].
  unfold get_node. destruct (mfind kcmp (ver (nmeta u), 0) d) as [e|] eqn:F; [|congruence].
  rewrite (B u e Lu N1 F). reflexivity.
Qed.

Lemma get_root_safe L sro b d w rt :
  safe L sro b d -> In (w, rt) sro -> (forall t, rt = Some t -> L t) ->
  match rt with
  | None => get_root d w = POk None
  | Some t => exists k, get_root d w = POk (Some k) /\ keyok d k t
  end.
Proof.
  intros (S & A & B & C & _) I HL. specialize (C w rt I). unfold rootinfo in C.
  unfold get_root. rewrite C. destruct rt as [t|]; [|reflexivity].
  specialize (A t (HL t eq_refl)).
  destruct (keqb (node_key t) (w, 1)) eqn:K.
  - apply keqb_true in K. exists (w, 1). split; [reflexivity|]. left. auto.
  - unfold get_node in A. destruct (mfind kcmp (node_key t) d) as [e|] eqn:F.
    + exists (node_key t). split; [reflexivity|]. left. reflexivity.
    + destruct (snd (node_key t) =? 1) eqn:N1; [|discriminate]. apply Z.eqb_eq in N1.
      cbn [node_key fst snd] in *.
      destruct (mfind kcmp (ver (nmeta t), 0) d) as [e|] eqn:F0; [|discriminate].
      exists (ver (nmeta t), 0). split; [reflexivity|]. right.
      split; [exact N1|]. split; [reflexivity|]. congruence.
Qed.

(** ** An exactly described virtual store is safe *)
Section Exact.
  Variable f0 : forest_t.
  Hypothesis FI : forest_inv f0.
  Hypothesis ND : NoDup (map fst f0).

  (** the side conditions of a descriptor (live nodes, root entries, re-keyed versions) *)
  Record desc_ok (L : node -> Prop) (ro : forest_t) (r : list Z) : Prop := DescOk {
    d_live : forall u, L u -> sub_of f0 u;
    d_roots : incl ro f0;
    d_rk : forall w, In w r -> forall w' rt, In (w', rt) ro -> w < w'
  }.

  Lemma live_coh (L : node -> Prop) ro r u u' :
    desc_ok L ro r -> L u -> L u' -> node_key u = node_key u' -> u = u'.
  Proof. intros D Lu Lu'. apply (fi_coh f0 FI); apply (d_live _ _ _ D); assumption. Qed.

  Lemma live_nonce (L : node -> Prop) ro r u : desc_ok L ro r -> L u -> 1 <= nonce (nmeta u).
  Proof. intros D Lu. apply (sub_of_nonce f0 FI), (d_live _ _ _ D), Lu. Qed.

  (** physical keys identify live nodes *)
  Lemma pkey_inj (L : node -> Prop) ro r u u' :
    desc_ok L ro r -> L u -> L u' -> pkey r u = pkey r u' -> u = u'.
  Proof.
    intros D Lu Lu' E. apply (live_coh L ro r); auto.
    pose proof (live_nonce L ro r u D Lu). pose proof (live_nonce L ro r u' D Lu').
    destruct (pkey_cases r u) as [(A1 & A2 & A3)|(A1 & A3)];
      destruct (pkey_cases r u') as [(B1 & B2 & B3)|(B1 & B3)]; rewrite A3, B3 in E.
    - unfold node_key. inversion E. congruence.
    - unfold node_key in E. inversion E. lia.
    - unfold node_key in E. inversion E. lia.
    - exact E.
  Qed.

  (** nothing but the node itself sits under one of the two key forms of a live node *)
  Lemma pentry_at_node_key (L : node -> Prop) ro r u e :
    desc_ok L ro r -> L u -> pentry L ro r (node_key u) e ->
    e = ENode (snode_of u) /\ pkey r u = node_key u.
  Proof.
    intros D Lu [(u' & Lu' & K & ->)|(v & rt & I & E)].
    - assert (u' = u).
      { apply (live_coh L ro r); auto.
        destruct (pkey_cases r u') as [(A1 & A2 & A3)|(A1 & A3)]; rewrite A3 in K.
        - pose proof (live_nonce L ro r u D Lu). unfold node_key in K. inversion K. lia.
        - symmetry. exact K. }
      subst u'. auto.
    - exfalso. destruct (root_entry_Some _ _ _ _ E) as [K _].
      pose proof (fi_root f0 FI v rt u (d_roots _ _ _ D _ I) (d_live _ _ _ D u Lu) K) as ->.
      rewrite (root_entry_root _ _ K) in E. discriminate.
  Qed.

  Lemma pentry_at_zero (L : node -> Prop) ro r w e :
    desc_ok L ro r -> pentry L ro r (w, 0) e ->
    exists u, L u /\ nonce (nmeta u) = 1 /\ ver (nmeta u) = w /\ In w r /\ e = ENode (snode_of u).
  Proof.
    intros D [(u & Lu & K & ->)|(v & rt & I & E)].
    - destruct (pkey_cases r u) as [(A1 & A2 & A3)|(A1 & A3)]; rewrite A3 in K.
      + inversion K; subst. exists u. auto.
      + pose proof (live_nonce L ro r u D Lu). unfold node_key in K. inversion K. lia.
    - destruct (root_entry_Some _ _ _ _ E) as [K _]. inversion K.
  Qed.

  Theorem pst_safe (L : node -> Prop) ro r sro b V :
    desc_ok L ro r -> pst (pentry L ro r) V ->
    incl sro ro -> (forall w t, In (w, Some t) sro -> L t) -> (forall w, In w r -> w < b) ->
    safe L sro b V.
  Proof.
    intros D [S F] HS HR Hb. split; [exact S|]. split; [|split; [|split]].
    - intros u Lu. unfold get_node.
      destruct (pkey_cases r u) as [(A1 & A2 & A3)|(A1 & A3)].
      + (* re-keyed: nothing under (w,1), the node under (w,0) *)
        assert (F1 : mfind kcmp (node_key u) V = None).
        { destruct (mfind kcmp (node_key u) V) as [e|] eqn:G; [|reflexivity]. exfalso.
          apply F in G. destruct (pentry_at_node_key L ro r u e D Lu G) as [_ K].
          rewrite A3 in K. pose proof (live_nonce L ro r u D Lu). unfold node_key in K.
          inversion K. lia. }
        rewrite F1. cbn [node_key fst snd]. rewrite A1. cbn [Z.eqb Pos.eqb].
        assert (F0 : mfind kcmp (ver (nmeta u), 0) V = Some (ENode (snode_of u))).
        { apply F. left. exists u. rewrite A3. auto. }
        rewrite F0. reflexivity.
      + assert (F1 : mfind kcmp (node_key u) V = Some (ENode (snode_of u))).
        { apply F. left. exists u. rewrite A3. auto. }
        rewrite F1. reflexivity.
    - intros u e Lu N1 G. apply F in G.
      destruct (pentry_at_zero L ro r _ e D G) as (u' & Lu' & N1' & V' & _ & ->).
      assert (u' = u); [|subst; reflexivity].
      apply (live_coh L ro r); auto. unfold node_key. congruence.
    - intros w rt I. unfold rootinfo. apply F. destruct rt as [t|].
      + destruct (keqb (node_key t) (w, 1)) eqn:K.
        * apply keqb_true in K. left. exists t. split; [exact (HR _ _ I)|]. split; [|reflexivity].
          destruct (pkey_cases r t) as [(A1 & A2 & A3)|(A1 & A3)]; [|congruence].
          exfalso. pose proof (d_rk _ _ _ D _ A2 w (Some t) (HS _ I)) as Lt.
          unfold node_key in K. inversion K. lia.
        * right. exists w, (Some t). split; [exact (HS _ I)|]. unfold root_entry. rewrite K. reflexivity.
      + right. exists w, None. split; [exact (HS _ I)|reflexivity].
    - intros w e G. apply F in G.
      destruct (pentry_at_zero L ro r _ e D G) as (u' & _ & _ & _ & Iw & _). auto.
  Qed.
End Exact.
