(** PruneAlgoFacts3: the invariant of the write batch during a deletion ([PI]) and the effect of
    the individual writes of deleteVersion on it: deleting an orphan ([PI_orphan]), deleting a
    root entry ([PI_root_entry]), re-keying a root ([PI_rekey]); the root key cache and the
    node iterator on a safe disk. *)
From Coq Require Import Lia Sorted.
From IAVL Require Import Bytes Varint Tree VMap TreeFacts MTree MTreeFacts HashFacts VersionFacts
  Store StoreFacts PruneAlgo PruneAlgoFacts1 PruneAlgoFacts2.
Local Open Scope Z_scope.

(** a version whose root node sits under nonce 0 on [d] is recorded in [r] ... *)
Definition K0 (L : node -> Prop) (r : list Z) (d : store) : Prop :=
  forall u, L u -> nonce (nmeta u) = 1 -> mfind kcmp (ver (nmeta u), 0) d <> None ->
            In (ver (nmeta u)) r.
(** ... and conversely *)
Definition R0 (L : node -> Prop) (r : list Z) (d : store) : Prop :=
  forall u, L u -> nonce (nmeta u) = 1 -> In (ver (nmeta u)) r ->
            mfind kcmp (ver (nmeta u), 0) d <> None.

Definition vgood (L : node -> Prop) (sro : forest_t) (r : list Z) (b : Z) (V : store) : Prop :=
  safe L sro b V /\ K0 L r V /\ R0 L r V.

Record PI (p : pdb) (L : node -> Prop) (sro : forest_t) (r : list Z) (b : Z)
          (E : nodekey -> entry -> Prop) : Prop := MkPI {
  pi_V : pst E (Vof p);
  pi_Vgood : vgood L sro r b (Vof p);
  pi_disk : safe L sro b (disk p);
  pi_k0 : K0 L r (disk p);
  pi_hist : Forall (safe L sro b) (dhist p)
}.

Lemma K0_anti (L L' : node -> Prop) r r' d :
  K0 L r d -> (forall u, L' u -> L u) -> incl r r' -> K0 L' r' d.
Proof. intros K HL Hr u Lu N P. apply Hr, (K u (HL u Lu) N P). Qed.

(** one write *)
Lemma PI_pwrite p o L sro r b E (L' : node -> Prop) sro' r' b' (E' : nodekey -> entry -> Prop) :
  PI p L sro r b E ->
  (forall u, L' u -> L u) -> incl sro' sro -> b <= b' -> incl r r' ->
  pst E' (sapply (Vof p) o) -> vgood L' sro' r' b' (sapply (Vof p) o) ->
  PI (pwrite p o) L' sro' r' b' E'.
Proof.
  intros [PV (PS & PK & PR) PD PK0 PH] HL HS Hb Hr EV GV.
  destruct (pwrite_cases p o) as (EqV & _ & [[Ed Eh]|[Ed Eh]]); constructor;
    rewrite ?EqV, ?Ed, ?Eh; auto.
  - exact (safe_anti _ _ _ _ _ _ _ PD HL HS Hb).
  - exact (K0_anti _ _ _ _ _ PK0 HL Hr).
  - eapply Forall_impl; [|exact PH]. intros d Sd. exact (safe_anti _ _ _ _ _ _ _ Sd HL HS Hb).
  - exact (safe_anti _ _ _ _ _ _ _ PS HL HS Hb).
  - exact (K0_anti _ _ _ _ _ PK HL Hr).
  - apply Forall_app. split.
    + eapply Forall_impl; [|exact PH]. intros d Sd. exact (safe_anti _ _ _ _ _ _ _ Sd HL HS Hb).
    + constructor; [|constructor]. exact (safe_anti _ _ _ _ _ _ _ PS HL HS Hb).
Qed.

Lemma PI_pflush p L sro r b E : PI p L sro r b E -> PI (pflush p) L sro r b E.
Proof.
  intros [PV (PS & PK & PR) PD PK0 PH]. destruct (pflush_facts p) as (Ed & _ & Eh & EV).
  constructor; rewrite ?EV, ?Ed, ?Eh; auto.
  - split; auto.
  - apply Forall_app. split; [exact PH|]. constructor; [exact PS|constructor].
Qed.

(** no write at all: a smaller descriptor (same re-keyed versions) *)
Lemma PI_weaken p L sro r b E (L' : node -> Prop) sro' b' (E' : nodekey -> entry -> Prop) :
  PI p L sro r b E ->
  (forall u, L' u -> L u) -> incl sro' sro -> b <= b' ->
  (forall k e, E k e <-> E' k e) ->
  PI p L' sro' r b' E'.
Proof.
  intros [PV (PS & PK & PR) PD PK0 PH] HL HS Hb HE. constructor.
  - exact (pst_equiv _ _ _ HE PV).
  - split; [exact (safe_anti _ _ _ _ _ _ _ PS HL HS Hb)|]. split.
    + exact (K0_anti _ _ _ _ _ PK HL (incl_refl r)).
    + intros u Lu. apply PR, HL, Lu.
  - exact (safe_anti _ _ _ _ _ _ _ PD HL HS Hb).
  - exact (K0_anti _ _ _ _ _ PK0 HL (incl_refl r)).
  - eapply Forall_impl; [|exact PH]. intros d Sd. exact (safe_anti _ _ _ _ _ _ _ Sd HL HS Hb).
Qed.

(** a key that was good on the disk stays good after a write *)
Lemma keyok_pwrite p o L sro r b E k u :
  PI p L sro r b E -> L u -> keyok (disk p) k u -> keyok (disk (pwrite p o)) k u.
Proof.
  intros P Lu [->|(N1 & -> & Pr)]; [left; reflexivity|].
  destruct (pwrite_cases p o) as (_ & _ & [[Ed _]|[Ed _]]); rewrite Ed.
  - right. auto.
  - right. split; [exact N1|]. split; [reflexivity|].
    pose proof (pi_k0 _ _ _ _ _ _ P u Lu N1 Pr) as Ir.
    destruct (pi_Vgood _ _ _ _ _ _ P) as (_ & _ & R). exact (R u Lu N1 Ir).
Qed.

(** ** Exactly described virtual stores *)
Section Steps.
  Variable f0 : forest_t.
  Hypothesis FI : forest_inv f0.
  Hypothesis ND : NoDup (map fst f0).

  (** the side conditions carried along *)
  Record ctx (L : node -> Prop) (ro sro : forest_t) (r : list Z) (b : Z) : Prop := MkCtx {
    c_desc : desc_ok f0 L ro r;
    c_sro : incl sro ro;
    c_sroot : forall w t, In (w, Some t) sro -> L t;
    c_rb : forall w, In w r -> w < b
  }.

  Definition PIx (p : pdb) (L : node -> Prop) (ro sro : forest_t) (r : list Z) (b : Z) : Prop :=
    ctx L ro sro r b /\ PI p L sro r b (pentry L ro r).

  Lemma vgood_of_pst (L : node -> Prop) ro sro r b V :
    ctx L ro sro r b -> pst (pentry L ro r) V -> vgood L sro r b V.
  Proof.
    intros [D HS HR Hb] P. split; [exact (pst_safe f0 FI L ro r sro b V D P HS HR Hb)|]. split.
    - intros u Lu N1 Pr. destruct (mfind kcmp (ver (nmeta u), 0) V) as [e|] eqn:F; [|congruence].
      apply (proj2 P) in F. destruct (pentry_at_zero f0 FI L ro r _ e D F) as (_ & _ & _ & _ & I & _).
      exact I.
    - intros u Lu N1 Ir.
      assert (F : mfind kcmp (ver (nmeta u), 0) V = Some (ENode (snode_of u))); [|congruence].
      apply (proj2 P). left. exists u. split; [exact Lu|]. split; [|reflexivity].
      destruct (pkey_cases r u) as [(_ & _ & K)|([C|C] & _)]; [symmetry; exact K| |]; contradiction.
  Qed.

  Definition minus (L : node -> Prop) (u : node) : node -> Prop := fun x => L x /\ x <> u.

  Lemma desc_ok_minus (L : node -> Prop) ro r u : desc_ok f0 L ro r -> desc_ok f0 (minus L u) ro r.
  Proof. intros [A B C]. constructor; auto. intros x [Lx _]. auto. Qed.

  (** taking a live node out of the store *)
  Lemma pst_remove (L : node -> Prop) ro r V u :
    desc_ok f0 L ro r -> pst (pentry L ro r) V -> L u ->
    pst (pentry (minus L u) ro r) (mdel kcmp (pkey r u) V).
  Proof.
    intros D P Lu. apply (pst_mdel _ _ _ _ P). intros k e. split.
    - intros [(u' & [Lu' Ne] & -> & ->)|(v & rt & I & Er)].
      + split; [|left; exists u'; auto].
        intros K. apply Ne. exact (pkey_inj f0 FI L ro r u' u D Lu' Lu K).
      + split; [|right; exists v, rt; auto]. intros ->.
        destruct (pkey_cases r u) as [(_ & _ & K)|(_ & K)]; rewrite K in Er.
        * destruct (root_entry_Some _ _ _ _ Er) as [Q _]. inversion Q.
        * assert (Pe : pentry L ro r (node_key u) e) by (right; exists v, rt; auto).
          destruct (pentry_at_node_key f0 FI L ro r u e D Lu Pe) as [-> _].
          destruct (root_entry_Some _ _ _ _ Er) as [_ [[_ Q]|(t & _ & Q & _)]]; discriminate.
    - intros [Nk [(u' & Lu' & -> & ->)|(v & rt & I & Er)]].
      + left. exists u'. split; [|auto]. split; [exact Lu'|]. intros ->. apply Nk. reflexivity.
      + right. exists v, rt. auto.
  Qed.

  Lemma ctx_minus (L : node -> Prop) ro sro r b u :
    ctx L ro sro r b -> (forall w t, In (w, Some t) sro -> t <> u) -> ctx (minus L u) ro sro r b.
  Proof.
    intros [D HS HR Hb] NR. constructor; auto.
    - apply desc_ok_minus, D.
    - intros w t I. split; [exact (HR w t I)|exact (NR w t I)].
  Qed.

  (** deleting the physical key of a live node that no retained version has as its root *)
  Lemma PIx_del_live p L ro sro r b u :
    PIx p L ro sro r b -> L u -> (forall w t, In (w, Some t) sro -> t <> u) ->
    PIx (pwrite p (del_node (pkey r u))) (minus L u) ro sro r b.
  Proof.
    intros [C P] Lu NR. pose proof (ctx_minus _ _ _ _ _ u C NR) as C'. split; [exact C'|].
    assert (PV : pst (pentry (minus L u) ro r) (sapply (Vof p) (del_node (pkey r u)))).
    { rewrite sapply_del. apply pst_remove; [apply C|apply P|exact Lu]. }
    apply (PI_pwrite p _ L sro r b _ _ sro r b _ P); auto.
    - intros x [Lx _]. exact Lx.
    - apply incl_refl.
    - lia.
    - apply incl_refl.
    - apply (vgood_of_pst _ ro); assumption.
  Qed.

  (** deleting a key that holds nothing *)
  Lemma PIx_del_absent p L ro sro r b k :
    PIx p L ro sro r b -> (forall e, ~ pentry L ro r k e) ->
    PIx (pwrite p (del_node k)) L ro sro r b.
  Proof.
    intros [C P] A. split; [exact C|].
    assert (PV : pst (pentry L ro r) (sapply (Vof p) (del_node k))).
    { rewrite sapply_del. apply pst_mdel_absent; [apply P|exact A]. }
    apply (PI_pwrite p _ L sro r b _ _ sro r b _ P); auto.
    - apply incl_refl.
    - lia.
    - apply incl_refl.
    - apply (vgood_of_pst _ ro); assumption.
  Qed.

  (** *** the orphan callback *)
  Lemma keyok_pwrite_x p o L ro sro r b k u :
    PIx p L ro sro r b -> L u -> keyok (disk p) k u -> keyok (disk (pwrite p o)) k u.
  Proof. intros [_ P]. apply (keyok_pwrite p o L sro r b _ k u P). Qed.

  Lemma PIx_orphan version p L ro sro r k u :
    PIx p L ro sro r version -> L u -> keyok (disk p) k u ->
    (forall w t, In (w, Some t) sro -> t <> u) ->
    PIx (on_orphan version p k) (minus L u) ro sro r version /\
    (forall x kx, minus L u x -> keyok (disk p) kx x -> keyok (disk (on_orphan version p k)) kx x).
  Proof.
    intros PX Lu KO NR. pose proof PX as [C P].
    pose proof (live_nonce f0 FI L ro r u (c_desc _ _ _ _ _ C) Lu) as Nn.
    unfold on_orphan. destruct KO as [->|(N1 & -> & Pr)].
    - cbn [node_key fst snd].
      destruct ((nonce (nmeta u) =? 1) && (ver (nmeta u) <? version)) eqn:T.
      + apply andb_prop in T. destruct T as [T1 T2]. apply Z.eqb_eq in T1. apply Z.ltb_lt in T2.
        destruct (pkey_cases r u) as [(_ & Ir & K)|(NI & K)].
        * (* re-keyed: (w,1) holds nothing, the node is under (w,0) *)
          assert (A : forall e, ~ pentry L ro r (ver (nmeta u), nonce (nmeta u)) e).
          { intros e Pe. destruct (pentry_at_node_key f0 FI L ro r u e (c_desc _ _ _ _ _ C) Lu Pe) as [_ K'].
            rewrite K in K'. unfold node_key in K'. inversion K'. lia. }
          pose proof (PIx_del_absent p L ro sro r version _ PX A) as PX1.
          rewrite <- K. split; [apply PIx_del_live; assumption|].
          intros x kx [Lx _] Kx. apply (keyok_pwrite_x _ _ L ro sro r version kx x PX1 Lx).
          apply (keyok_pwrite_x _ _ L ro sro r version kx x PX Lx Kx).
        * (* under (w,1): then (w,0) holds nothing *)
          rewrite <- K. pose proof (PIx_del_live p L ro sro r version u PX Lu NR) as PX1.
          split.
          -- apply PIx_del_absent; [exact PX1|].
             intros e Pe.
             destruct (pentry_at_zero f0 FI _ ro r _ e (desc_ok_minus L ro r u (c_desc _ _ _ _ _ C)) Pe)
               as (u' & [Lu' Ne] & N1' & V' & Ir & _).
             apply Ne. apply (live_coh f0 FI L ro r); [apply C|assumption|assumption|].
             unfold node_key. congruence.
          -- intros x kx Mx Kx. apply (keyok_pwrite_x _ _ _ ro sro r version kx x PX1 Mx).
             destruct Mx as [Lx _]. apply (keyok_pwrite_x _ _ L ro sro r version kx x PX Lx Kx).
      + (* a single deletion, the node is under its own key *)
        assert (K : pkey r u = node_key u).
        { destruct (pkey_cases r u) as [(N1 & Ir & _)|(_ & K)]; [|exact K]. exfalso.
          pose proof (c_rb _ _ _ _ _ C _ Ir) as Lt. rewrite N1 in T. cbn [Z.eqb Pos.eqb andb] in T.
          apply Z.ltb_ge in T. lia. }
        rewrite <- K. split; [apply PIx_del_live; assumption|].
        intros x kx [Lx _] Kx. apply (keyok_pwrite_x _ _ L ro sro r version kx x PX Lx Kx).
    - (* asked under (w,0) *)
      cbn [fst snd]. cbn [Z.eqb andb].
      pose proof (pi_k0 _ _ _ _ _ _ P u Lu N1 Pr) as Ir.
      assert (K : pkey r u = (ver (nmeta u), 0)).
      { destruct (pkey_cases r u) as [(_ & _ & K)|([A|A] & _)]; [exact K| |]; contradiction. }
      rewrite <- K. split; [apply PIx_del_live; assumption|].
      intros x kx [Lx _] Kx. apply (keyok_pwrite_x _ _ L ro sro r version kx x PX Lx Kx).
  Qed.

  (** equivalent descriptors *)
  Lemma PIx_ext p (L L' : node -> Prop) ro sro r b :
    (forall x, L x <-> L' x) -> PIx p L ro sro r b -> PIx p L' ro sro r b.
  Proof.
    intros Q [[D HS HR Hb] P]. split.
    - constructor; auto.
      + destruct D as [A B C]. constructor; auto. intros x Lx. apply A, Q, Lx.
      + intros w t I. apply Q, (HR w t I).
    - apply (PI_weaken p L sro r b _ L' sro b _ P).
      + intros x. apply Q.
      + apply incl_refl.
      + lia.
      + intros k e. split.
        * intros [(u & Lu & A)|A]; [left; exists u; split; [apply Q, Lu|exact A]|right; exact A].
        * intros [(u & Lu & A)|A]; [left; exists u; split; [apply Q, Lu|exact A]|right; exact A].
  Qed.

  (** *** the root entry of the deleted version *)
  Lemma PIx_root_entry_del p L f' sro r b v rv k e :
    PIx p L ((v, rv) :: f') sro r b -> incl sro f' -> ~ In v (map fst f') ->
    root_entry v rv = Some (k, e) ->
    PIx (pwrite p (del_node (v, 1))) L f' sro r b.
  Proof.
    intros [[D HS HR Hb] P] HS' NI Er.
    assert (D' : desc_ok f0 L f' r).
    { destruct D as [A B C]. constructor; auto.
      - intros x Ix. apply B. right. exact Ix.
      - intros w Iw w' rt I. apply (C w Iw w' rt). right. exact I. }
    assert (C' : ctx L f' sro r b) by (constructor; auto).
    split; [exact C'|].
    assert (PV : pst (pentry L f' r) (sapply (Vof p) (del_node (v, 1)))).
    { rewrite sapply_del. apply (pst_mdel _ _ _ _ (pi_V _ _ _ _ _ _ P)). intros k' e'. split.
      - intros [(u & Lu & -> & ->)|(w & rt & I & Ew)].
        + split; [|left; exists u; auto]. intros K.
          destruct (pkey_cases r u) as [(_ & _ & K')|(_ & K')]; rewrite K' in K; [inversion K|].
          pose proof (fi_root f0 FI v rv u (d_roots _ _ _ _ D _ (or_introl eq_refl))
                        (d_live _ _ _ _ D u Lu) K) as ->.
          rewrite (root_entry_root _ _ K) in Er. discriminate.
        + split; [|right; exists w, rt; split; [right; exact I|exact Ew]].
          intros ->. destruct (root_entry_Some _ _ _ _ Ew) as [Q _]. inversion Q; subst w.
          apply NI. apply in_map_iff. exists (v, rt). auto.
      - intros [Nk [(u & Lu & -> & ->)|(w & rt & [Q|I] & Ew)]].
        + left. exists u. auto.
        + inversion Q; subst w rt. destruct (root_entry_Some _ _ _ _ Ew) as [-> _]. contradiction.
        + right. exists w, rt. auto. }
    apply (PI_pwrite p _ L sro r b _ _ sro r b _ P); auto.
    - apply incl_refl.
    - lia.
    - apply incl_refl.
    - apply (vgood_of_pst _ f'); assumption.
  Qed.

  Lemma PIx_root_entry_none p L f' sro r b v rv :
    PIx p L ((v, rv) :: f') sro r b -> incl sro f' -> root_entry v rv = None ->
    PIx p L f' sro r b.
  Proof.
    intros [[D HS HR Hb] P] HS' Er.
    assert (D' : desc_ok f0 L f' r).
    { destruct D as [A B C]. constructor; auto.
      - intros x Ix. apply B. right. exact Ix.
      - intros w Iw w' rt I. apply (C w Iw w' rt). right. exact I. }
    split; [constructor; auto|].
    apply (PI_weaken p L sro r b _ L sro b _ P); auto.
    - apply incl_refl.
    - lia.
    - intros k e. split.
      + intros [A|(w & rt & [Q|I] & Ew)]; [left; exact A| |right; exists w, rt; auto].
        inversion Q; subst. congruence.
      + intros [A|(w & rt & I & Ew)]; [left; exact A|]. right. exists w, rt. split; [right; exact I|exact Ew].
  Qed.

  (** *** re-keying the root that the next version still uses *)
  Lemma safe_mset0 (L : node -> Prop) sro v V t :
    (forall u, L u -> sub_of f0 u) ->
    safe L sro v V -> L t -> node_key t = (v, 1) ->
    safe L sro (v + 1) (mset kcmp (v, 0) (ENode (snode_of t)) V).
  Proof.
    intros HL (S & A & B & C & Db) Lt Kt.
    assert (Z0 : mfind kcmp (v, 0) V = None).
    { destruct (mfind kcmp (v, 0) V) as [e|] eqn:F; [|reflexivity]. specialize (Db _ _ F). lia. }
    assert (Coh : forall u, L u -> nonce (nmeta u) = 1 -> ver (nmeta u) = v -> u = t).
    { intros u Lu N1 Vu. apply (fi_coh f0 FI); auto. rewrite Kt. unfold node_key. congruence. }
    split; [apply (msorted_mset kcmp kcmp_ok), S|]. split; [|split; [|split]].
    - intros u Lu. specialize (A u Lu).
      pose proof (sub_of_nonce f0 FI u (HL u Lu)) as Nn.
      unfold get_node, node_key in *. cbn [fst snd] in *.
      assert (Ne : kcmp (ver (nmeta u), nonce (nmeta u)) (v, 0) <> Eq).
      { intros Kc. apply kcmp_Eq in Kc. inversion Kc. lia. }
      assert (M1 : mfind kcmp (ver (nmeta u), nonce (nmeta u)) (mset kcmp (v, 0) (ENode (snode_of t)) V)
                   = mfind kcmp (ver (nmeta u), nonce (nmeta u)) V).
      { rewrite (mfind_mset kcmp kcmp_ok).
        destruct (kcmp (ver (nmeta u), nonce (nmeta u)) (v, 0)); [congruence|reflexivity|reflexivity]. }
      rewrite M1.
      destruct (mfind kcmp (ver (nmeta u), nonce (nmeta u)) V) as [e|]; [exact A|].
      destruct (nonce (nmeta u) =? 1); [|discriminate].
      rewrite (mfind_mset kcmp kcmp_ok).
      destruct (kcmp (ver (nmeta u), 0) (v, 0)) eqn:Kc2; [|exact A|exact A].
      apply kcmp_Eq in Kc2. inversion Kc2 as [Q]. rewrite Q, Z0 in A. discriminate.
    - intros u e Lu N1. rewrite (mfind_mset kcmp kcmp_ok).
      destruct (kcmp (ver (nmeta u), 0) (v, 0)) eqn:Kc; [|apply B; assumption|apply B; assumption].
      apply kcmp_Eq in Kc. inversion Kc as [Q]. intros E. inversion E; subst e.
      rewrite (Coh u Lu N1 Q). reflexivity.
    - intros w rt I. specialize (C w rt I). unfold rootinfo in *. rewrite (mfind_mset kcmp kcmp_ok).
      destruct (kcmp (w, 1) (v, 0)) eqn:Kc; [|exact C|exact C]. apply kcmp_Eq in Kc. inversion Kc.
    - intros w e. rewrite (mfind_mset kcmp kcmp_ok).
      destruct (kcmp (w, 0) (v, 0)) eqn:Kc.
      + apply kcmp_Eq in Kc. inversion Kc. lia.
      + intros F. specialize (Db _ _ F). lia.
      + intros F. specialize (Db _ _ F). lia.
  Qed.

  Lemma pkey_cons_other r v u :
    ~ (nonce (nmeta u) = 1 /\ ver (nmeta u) = v) -> pkey (v :: r) u = pkey r u.
  Proof.
    intros N. unfold pkey, in_r. cbn [existsb].
    destruct (nonce (nmeta u) =? 1) eqn:E1; cbn [andb]; [|reflexivity].
    destruct (ver (nmeta u) =? v) eqn:E2; cbn [orb]; [|reflexivity].
    apply Z.eqb_eq in E1, E2. exfalso. auto.
  Qed.

  Lemma pkey_cons_self r v u :
    nonce (nmeta u) = 1 -> ver (nmeta u) = v -> pkey (v :: r) u = (v, 0).
  Proof.
    intros N1 Vu. unfold pkey, in_r. cbn [existsb]. rewrite N1, Vu, !Z.eqb_refl. reflexivity.
  Qed.

  Lemma PIx_rekey p L f' sro r v t :
    PIx p L f' sro r v -> L t -> node_key t = (v, 1) ->
    (forall w rt, In (w, rt) f' -> v < w) ->
    PIx (pwrite (pwrite p (set_node ((v, 0), ENode (snode_of t)))) (del_node (v, 1)))
        L f' sro (v :: r) (v + 1) /\
    (forall x k, L x -> keyok (disk p) k x ->
       keyok (disk (pwrite (pwrite p (set_node ((v, 0), ENode (snode_of t)))) (del_node (v, 1)))) k x).
  Proof.
    intros [[D HS HR Hb] P] Lt Kt Hv.
    assert (N1 : nonce (nmeta t) = 1) by (unfold node_key in Kt; congruence).
    assert (Vt : ver (nmeta t) = v) by (unfold node_key in Kt; congruence).
    assert (Coh : forall u, L u -> nonce (nmeta u) = 1 -> ver (nmeta u) = v -> u = t).
    { intros u Lu N1u Vu. apply (fi_coh f0 FI); try (apply D; assumption).
      rewrite Kt. unfold node_key. congruence. }
    assert (NIr : ~ In v r) by (intros I; specialize (Hb _ I); lia).
    set (e := ENode (snode_of t)).
    set (E1 := fun k e' => (k = (v, 0) /\ e' = e) \/ (k <> (v, 0) /\ pentry L f' r k e')).
    destruct (pi_Vgood _ _ _ _ _ _ P) as (SV & KV & RV).
    assert (Z0 : mfind kcmp (v, 0) (Vof p) = None).
    { destruct SV as (_ & _ & _ & _ & Db).
      destruct (mfind kcmp (v, 0) (Vof p)) as [e0|] eqn:F; [|reflexivity]. specialize (Db _ _ F). lia. }
    (* the set *)
    assert (P1 : PI (pwrite p (set_node ((v, 0), e))) L sro (v :: r) (v + 1) E1).
    { apply (PI_pwrite p _ L sro r v _ _ sro (v :: r) (v + 1) _ P); auto.
      - apply incl_refl.
      - lia.
      - apply incl_tl, incl_refl.
      - rewrite sapply_set. apply (pst_mset _ _ _ _ _ (pi_V _ _ _ _ _ _ P)). intros k e'. reflexivity.
      - rewrite sapply_set. split; [apply safe_mset0; auto; apply D|]. split.
        + intros u Lu N1u. rewrite (mfind_mset kcmp kcmp_ok).
          destruct (kcmp (ver (nmeta u), 0) (v, 0)) eqn:Kc.
          * apply kcmp_Eq in Kc. inversion Kc. intros _. left. reflexivity.
          * intros Pr. right. exact (KV u Lu N1u Pr).
          * intros Pr. right. exact (KV u Lu N1u Pr).
        + intros u Lu N1u [Q|Ir]; rewrite (mfind_mset kcmp kcmp_ok).
          * rewrite <- Q, (c_refl kcmp kcmp_ok). discriminate.
          * destruct (kcmp (ver (nmeta u), 0) (v, 0)); [discriminate| |]; exact (RV u Lu N1u Ir). }
    (* the delete *)
    assert (D' : desc_ok f0 L f' (v :: r)).
    { destruct D as [A B C]. constructor; auto.
      intros w [<-|Iw] w' rt I; [exact (Hv _ _ I)|exact (C w Iw w' rt I)]. }
    assert (C' : ctx L f' sro (v :: r) (v + 1)).
    { constructor; auto. intros w [<-|Iw]; [lia|]. specialize (Hb _ Iw). lia. }
    split.
    2:{ intros x k Lx Kx. apply (keyok_pwrite _ _ L sro (v :: r) (v + 1) E1 k x P1 Lx).
        exact (keyok_pwrite p _ L sro r v _ k x P Lx Kx). }
    split; [exact C'|].
    assert (PV : pst (pentry L f' (v :: r))
                     (sapply (Vof (pwrite p (set_node ((v, 0), e)))) (del_node (v, 1)))).
    { rewrite sapply_del. apply (pst_mdel _ _ _ _ (pi_V _ _ _ _ _ _ P1)). intros k e'. split.
      - intros [(u & Lu & -> & ->)|(w & rt & I & Ew)].
        + destruct (Z.eq_dec (nonce (nmeta u)) 1) as [N1u|N1u];
            [destruct (Z.eq_dec (ver (nmeta u)) v) as [Vu|Vu]|].
          * rewrite (pkey_cons_self r v u N1u Vu). rewrite (Coh u Lu N1u Vu).
            split; [intros Q; inversion Q|]. left. auto.
          * rewrite (pkey_cons_other r v u) by tauto.
            assert (Ne0 : pkey r u <> (v, 0)).
            { destruct (pkey_cases r u) as [(_ & Ir & K)|(_ & K)]; rewrite K.
              - intros Q. inversion Q. contradiction.
              - pose proof (live_nonce f0 FI L f' r u D Lu). unfold node_key. intros Q. inversion Q. lia. }
            split; [|right; split; [exact Ne0|left; exists u; auto]].
            destruct (pkey_cases r u) as [(_ & _ & K)|(_ & K)]; rewrite K.
            -- intros Q. inversion Q.
            -- unfold node_key. intros Q. inversion Q. contradiction.
          * rewrite (pkey_cons_other r v u) by tauto.
            assert (Ne0 : pkey r u <> (v, 0)).
            { destruct (pkey_cases r u) as [(A1 & _)|(_ & K)]; [contradiction|]. rewrite K.
              pose proof (live_nonce f0 FI L f' r u D Lu). unfold node_key. intros Q. inversion Q. lia. }
            split; [|right; split; [exact Ne0|left; exists u; auto]].
            destruct (pkey_cases r u) as [(A1 & _)|(_ & K)]; [contradiction|]. rewrite K.
            unfold node_key. intros Q. inversion Q. contradiction.
        + destruct (root_entry_Some _ _ _ _ Ew) as [-> _]. specialize (Hv _ _ I).
          split; [intros Q; inversion Q; lia|]. right. split; [intros Q; inversion Q|].
          right. exists w, rt. auto.
      - intros [Nk [[-> ->]|[Nk0 [(u & Lu & -> & ->)|(w & rt & I & Ew)]]]].
        + left. exists t. split; [exact Lt|]. split; [|reflexivity].
          symmetry. apply pkey_cons_self; assumption.
        + left. exists u. split; [exact Lu|]. split; [|reflexivity].
          symmetry. apply pkey_cons_other. intros [N1u Vu].
          rewrite (Coh u Lu N1u Vu) in Nk. apply Nk.
          destruct (pkey_cases r t) as [(_ & Ir & _)|(_ & K)]; [rewrite Vt in Ir; contradiction|]. rewrite K. exact Kt.
        + right. exists w, rt. auto. }
    apply (PI_pwrite _ _ L sro (v :: r) (v + 1) _ _ sro (v :: r) (v + 1) _ P1); auto.
    - apply incl_refl.
    - lia.
    - apply incl_refl.
    - apply (vgood_of_pst _ f'); assumption.
  Qed.
End Steps.
