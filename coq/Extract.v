(** Extraction of the executable models to OCaml (ExtrOcamlBasic only; N/Z/positive/nat
    stay Coq datatypes; no Extract Constant). Run coqc from the ocaml/ directory. *)
Require Extraction.
Require Import ExtrOcamlBasic.
From IAVL Require Import Bytes Varint Sha256 Tree MTree.

Definition m_step := MTree.step sha256.
Definition m_init := MTree.init_state.

Extraction "model.ml" m_step m_init bcmp sha256 uvarint_enc uvarint_dec varint_enc varint_dec
  bytes_enc bytes_dec be_enc be_dec.
