(** Extraction of the executable models to OCaml (ExtrOcamlBasic only; N/Z/positive/nat
    stay Coq datatypes; no Extract Constant). Run coqc from the ocaml/ directory. *)
Require Extraction.
Require Import ExtrOcamlBasic.
From IAVL Require Import Bytes Varint Sha256 Tree VMap MTree KV Iter ExportImport Codec Diff Store Ics23 VersionFacts PruneAlgo FastLife Discover Crash DbImage Memo NodeCache Flusher PhysCommit Legacy LegacyStore V2 V2Orphans V2Leaves.

Definition m_step := MTree.step sha256.
Definition m_init := MTree.init_state.

Definition imp_run_sha := ExportImport.imp_run sha256.
Definition commit_ops_sha := Store.commit_ops sha256.
Definition get_proof_sha := Ics23.get_proof sha256.
Definition cimp_run_sha := ExportImport.cimp_run sha256.
Definition prune_forest_sha := PruneAlgo.prune_forest sha256.
Definition prune_forest_disks_sha := PruneAlgo.prune_forest_disks sha256.
Definition readable_sha := PruneAlgo.readable sha256.
Definition load_version_sha := PruneAlgo.load_version sha256.
Definition fstep_sha := FastLife.fstep sha256.
Definition commit_node_ops_sha := Store.commit_node_ops sha256.
Definition memo_step_sha := Memo.memo_step sha256.
Definition commit_bops_sha := PhysCommit.commit_bops sha256.
Definition legacy_history_sha := LegacyStore.legacy_history sha256.
Definition os_run_sha := V2Orphans.os_run sha256 false false.
Definition ls_run_sha := V2Leaves.ls_run sha256 false.
Definition os_step_sha := V2Orphans.os_step sha256 false false.
Definition os_apply_all_code := V2Orphans.os_apply_all false.
Definition prune_legacy_sha := LegacyStore.prune_legacy sha256.
Definition prune_new_version_sha := LegacyStore.prune_new_version sha256.

Extraction "model.ml" m_step m_init bcmp sha256 uvarint_enc uvarint_dec varint_enc varint_dec
  bytes_enc bytes_dec be_enc be_dec
  KV.kv_step KV.mem_step KV.ldb_step KV.prefix_step KV.kv_set
  Iter.iter_tree Iter.it_collect_tree Iter.fast_collect Iter.uf_collect
  ExportImport.export imp_run_sha cimp_run_sha ExportImport.compress ExportImport.decompress
  Codec.decode_node Codec.decode_legacy_node Codec.decode_fast_node Codec.encode_node Codec.encode_fast_node
  Codec.node_key_bytes Codec.classify_root Codec.fast_storage_label Codec.db_node_key Codec.db_fast_key Codec.db_meta_key
  Codec.root_ref_value
  Diff.extract Diff.net Store.expected_store Store.expected_fast commit_ops_sha
  get_proof_sha Ics23.marshal_commitment_proof VersionFacts.in_contractb
  prune_forest_sha prune_forest_disks_sha readable_sha load_version_sha PruneAlgo.phys_of PruneAlgo.rekeyed
  fstep_sha FastLife.finit FastLife.enable_if_needed Discover.discovered_available
  commit_node_ops_sha Crash.recover Crash.image Store.rollback_ops Store.rebuild_ops Store.apply_ops
  DbImage.encode_image DbImage.decode_image
  memo_step_sha Memo.memo_init
  NodeCache.coherentb NodeCache.stale_keys Flusher.segs Flusher.fl_batches Flusher.cut_positions commit_bops_sha legacy_history_sha prune_legacy_sha prune_new_version_sha
  LegacyStore.rollback_legacy LegacyStore.legacy_fuel LegacyStore.legacy_latest
  os_run_sha os_step_sha os_apply_all_code V2Orphans.ostate_empty ls_run_sha V2Leaves.ls_empty.
