package main

// An independent decoder of the pinned on-disk format (new-format nodes, root entries, fast
// nodes, metadata). It shares no code with the library: own varint and length-prefix readers.

import (
	"bytes"
	"encoding/binary"
	"encoding/hex"
	"errors"
	"fmt"
	"sort"
	"strings"
)

var errRaw = errors.New("raw decode error")

func rdUvarint(b []byte) (uint64, int, error) {
	var x uint64
	var s uint
	for i, c := range b {
		if i == 10 {
			return 0, 0, errRaw
		}
		if c < 0x80 {
			if i == 9 && c > 1 {
				return 0, 0, errRaw
			}
			return x | uint64(c)<<s, i + 1, nil
		}
		x |= uint64(c&0x7f) << s
		s += 7
	}
	return 0, 0, errRaw
}

func rdVarint(b []byte) (int64, int, error) {
	u, n, err := rdUvarint(b)
	if err != nil {
		return 0, 0, err
	}
	x := int64(u >> 1)
	if u&1 != 0 {
		x = ^x
	}
	return x, n, nil
}

func rdBytes(b []byte) ([]byte, int, error) {
	l, n, err := rdUvarint(b)
	if err != nil {
		return nil, 0, err
	}
	if l > uint64(len(b)-n) {
		return nil, 0, errRaw
	}
	return b[n : n+int(l)], n + int(l), nil
}

// decodeNodeBody renders a stored node body canonically:
// leaf  "L,<key>,<value>"   inner "I,<height>,<size>,<key>,<hash>,<lv>.<ln>,<rv>.<rn>"
func decodeNodeBody(buf []byte) (string, error) {
	h, n, err := rdVarint(buf)
	if err != nil {
		return "", err
	}
	buf = buf[n:]
	size, n, err := rdVarint(buf)
	if err != nil {
		return "", err
	}
	buf = buf[n:]
	key, n, err := rdBytes(buf)
	if err != nil {
		return "", err
	}
	buf = buf[n:]
	if h == 0 {
		val, _, err := rdBytes(buf)
		if err != nil {
			return "", err
		}
		if size != 1 {
			return "", errRaw
		}
		return "L," + hex.EncodeToString(key) + "," + hex.EncodeToString(val), nil
	}
	hash, n, err := rdBytes(buf)
	if err != nil {
		return "", err
	}
	buf = buf[n:]
	mode, n, err := rdVarint(buf)
	if err != nil {
		return "", err
	}
	buf = buf[n:]
	ref := func() (string, error) {
		v, n, err := rdVarint(buf)
		if err != nil {
			return "", err
		}
		buf = buf[n:]
		nn, n, err := rdVarint(buf)
		if err != nil {
			return "", err
		}
		buf = buf[n:]
		if nn == 0 { // a root re-keyed by pruning: (v,0) stands for (v,1)
			nn = 1
		}
		return fmt.Sprintf("%d.%d", v, nn), nil
	}
	legacy := func() (string, error) {
		hb, n, err := rdBytes(buf)
		if err != nil {
			return "", err
		}
		buf = buf[n:]
		return "h" + hex.EncodeToString(hb), nil
	}
	var l, r string
	if mode&1 != 0 {
		l, err = legacy()
	} else {
		l, err = ref()
	}
	if err != nil {
		return "", err
	}
	if mode&2 != 0 {
		r, err = legacy()
	} else {
		r, err = ref()
	}
	if err != nil {
		return "", err
	}
	return fmt.Sprintf("I,%d,%d,%s,%s,%s,%s", h, size, hex.EncodeToString(key), hex.EncodeToString(hash), l, r), nil
}

type rawEntry struct {
	v int64
	n uint32
	s string
}

// auditNodes scans every 's' key of the tree's database view.
// Result: an[<v>.<n>=<E|R:v.n|N:body>;...] sorted by (v, n) with nonce 0 printed as 1
// (a root re-keyed by pruning), plus counts of unknown keys.
// With norm=false ("audit phys") the nonce of the KEYS is printed as stored; references (root
// references and child references) are printed with nonce 0 as 1 in both modes: whether the code
// writes a reference to a re-keyed root as (v,1) or (v,0) depends on the node cache (the cached
// object is re-keyed in place); both forms resolve to the same node.
func (s *Sys) auditNodes(norm bool) string {
	it, err := s.db.Iterator(nil, nil)
	if err != nil {
		return "err"
	}
	defer it.Close()
	var ents []rawEntry
	other := 0
	for ; it.Valid(); it.Next() {
		k, val := it.Key(), it.Value()
		if len(k) == 0 {
			other++
			continue
		}
		switch k[0] {
		case 's':
			if len(k) != 13 {
				other++
				continue
			}
			v := int64(binary.BigEndian.Uint64(k[1:9]))
			n := binary.BigEndian.Uint32(k[9:13])
			var desc string
			switch {
			case len(val) == 0:
				desc = "E"
			case val[0] == 's' && len(val) == 13:
				rn := binary.BigEndian.Uint32(val[9:13])
				if rn == 0 {
					rn = 1
				}
				desc = fmt.Sprintf("R:%d.%d", int64(binary.BigEndian.Uint64(val[1:9])), rn)
			case val[0] == 's' && len(val) == 9:
				desc = fmt.Sprintf("R:%d.1", int64(binary.BigEndian.Uint64(val[1:9])))
			default:
				body, err := decodeNodeBody(val)
				if err != nil {
					desc = "BAD:" + hex.EncodeToString(val)
				} else {
					desc = "N:" + body
				}
			}
			if n == 0 && norm {
				n = 1
			}
			ents = append(ents, rawEntry{v, n, desc})
		case 'f', 'm':
		default:
			other++
		}
	}
	sort.SliceStable(ents, func(i, j int) bool {
		if ents[i].v != ents[j].v {
			return ents[i].v < ents[j].v
		}
		return ents[i].n < ents[j].n
	})
	parts := make([]string, len(ents))
	for i, e := range ents {
		parts[i] = fmt.Sprintf("%d.%d=%s", e.v, e.n, e.s)
	}
	if !norm {
		return fmt.Sprintf("ap[%s]other=%d", strings.Join(parts, ";"), other)
	}
	return fmt.Sprintf("an[%s]other=%d", strings.Join(parts, ";"), other)
}

// auditFast renders the persisted fast index: af(<label>;[k=v,...])
func (s *Sys) auditFast(withVersions bool) string {
	it, err := s.db.Iterator([]byte{'f'}, []byte{'g'})
	if err != nil {
		return "err"
	}
	defer it.Close()
	var parts []string
	for ; it.Valid(); it.Next() {
		k, val := it.Key(), it.Value()
		ver, n, err := rdVarint(val)
		if err != nil {
			parts = append(parts, hex.EncodeToString(k[1:])+"=BAD")
			continue
		}
		v, _, err := rdBytes(val[n:])
		if err != nil {
			parts = append(parts, hex.EncodeToString(k[1:])+"=BAD")
			continue
		}
		if withVersions {
			parts = append(parts, fmt.Sprintf("%s=%s@%d", hex.EncodeToString(k[1:]), hex.EncodeToString(v), ver))
		} else {
			parts = append(parts, hex.EncodeToString(k[1:])+"="+hex.EncodeToString(v))
		}
	}
	label, _ := s.db.Get([]byte("mstorage_version"))
	if len(label) == 0 {
		label = []byte("1.0.0") // never written: the default storage version
	}
	return "af(" + string(label) + ";[" + strings.Join(parts, ",") + "])"
}

// auditRaw dumps the stored bytes of every 's' and 'f' key and the storage label, to be decoded by the
// extracted Coq decoders: raw[<hexkey>=<hexvalue>;...]
func (s *Sys) auditRaw() string {
	it, err := s.db.Iterator(nil, nil)
	if err != nil {
		return "err"
	}
	defer it.Close()
	var parts []string
	for ; it.Valid(); it.Next() {
		k := it.Key()
		if len(k) == 0 || (k[0] != 's' && k[0] != 'f' && k[0] != 'm') {
			continue
		}
		parts = append(parts, hex.EncodeToString(k)+"="+hex.EncodeToString(it.Value()))
	}
	return "raw[" + strings.Join(parts, ";") + "]"
}

// auditCache compares the two caches of the tree's node database with the database itself
// (hook VerifNodeCache / VerifFastNodeCache, build tag verif). The invariant (NodeCache.v,
// coherent): a cached node whose key can be read from the database - directly or through the
// (v,1) -> (v,0) fall-back of GetNode - has exactly the stored bytes; a cached fast node whose
// key is in the stored index has the stored value and version. Entries whose key is gone from
// the database are counted (stale), not compared: the caches are never invalidated by deletions.
// Result: ac(ok;c=[<hexkey>=<hexbytes>,..];d=[<hexkey>=<hexbytes>,..]) - the node-cache entries
// (most recently used first, legacy nodes left out) and the database records they resolve to, for
// the extracted checker NodeCache.coherentb - or ac(viol:<what>).
func (s *Sys) auditCache() string {
	if s.cstats == nil {
		s.cstats = map[string]int{}
	}
	stats := s.cstats
	if s.tree == nil {
		return "ac(ok;c=[];d=[])"
	}
	var bad []string
	var cparts, dparts []string
	seen := map[string]bool{}
	addDisk := func(k []byte) []byte {
		val, err := s.db.Get(append([]byte{'s'}, k...))
		if err != nil || val == nil {
			return nil
		}
		if !seen[string(k)] {
			seen[string(k)] = true
			dparts = append(dparts, hex.EncodeToString(k)+"="+hex.EncodeToString(val))
		}
		return val
	}
	for _, c := range s.tree.VerifNodeCache() {
		stats["x:cache.nodes"]++
		if c.Legacy || len(c.Key) != 12 {
			stats["x:cache.legacy"]++
			continue
		}
		if c.Err != "" {
			bad = append(bad, "unencodable:"+hex.EncodeToString(c.Key))
			continue
		}
		cparts = append(cparts, hex.EncodeToString(c.Key)+"="+hex.EncodeToString(c.Bytes))
		val := addDisk(c.Key)
		if val == nil && binary.BigEndian.Uint32(c.Key[8:12]) == 1 {
			k0 := append(append([]byte(nil), c.Key[:8]...), 0, 0, 0, 0)
			val = addDisk(k0)
		}
		if val == nil {
			stats["x:cache.stale"]++
			continue
		}
		if len(val) == 0 || (val[0] == 's' && (len(val) == 13 || len(val) == 9)) {
			// the key holds a root record (empty tree / reference to an earlier root, written by
			// SaveRoot without touching the cache), not a node: GetNode is never asked for it
			stats["x:cache.rootrec"]++
			continue
		}
		if !bytes.Equal(val, c.Bytes) {
			bad = append(bad, fmt.Sprintf("node:%d.%d", int64(binary.BigEndian.Uint64(c.Key[:8])), binary.BigEndian.Uint32(c.Key[8:12])))
		}
	}
	for _, f := range s.tree.VerifFastNodeCache() {
		stats["x:cache.fastnodes"]++
		val, err := s.db.Get(append([]byte{'f'}, f.Key...))
		if err != nil || val == nil {
			stats["x:cache.faststale"]++
			continue
		}
		ver, n, err := rdVarint(val)
		if err != nil {
			continue
		}
		v, _, err := rdBytes(val[n:])
		if err != nil {
			continue
		}
		if ver != f.Version || !bytes.Equal(v, f.Value) {
			bad = append(bad, "fast:"+hex.EncodeToString(f.Key))
		}
	}
	if len(bad) > 0 {
		sort.Strings(bad)
		return "ac(viol:" + strings.Join(bad, ",") + ")"
	}
	return "ac(ok;c=[" + strings.Join(cparts, ",") + "];d=[" + strings.Join(dparts, ",") + "])"
}
