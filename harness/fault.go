package main

import (
	"bytes"
	"fmt"
	"os"
	"strings"
	"time"

	"github.com/cosmos/iavl"
	dbm "github.com/cosmos/iavl/db"
)

// an error result; a proof request whose calls all failed (pf(none,..)) counts as an error
func isErrRes(r string) bool {
	return strings.HasPrefix(r, "err") || strings.HasPrefix(r, "pf(none") || strings.HasPrefix(r, "pf(getproof")
}

func isWriteOp(op []string) bool {
	switch op[0] {
	case "save", "prune", "lvfo", "savecs":
		return true
	}
	return false
}

// execFault enumerates every single-fault position of one operation (C17). For each position the
// operation is run on a fresh image of the database (cold caches) with exactly that storage call
// failing. Verdict per position: the operation reports an error, or its result is identical to
// the fault-free result; after a failed write the image must reopen to the old or the new state.
// Result: "fl(ok,n=<positions>,inj=<faults injected>);<fault-free result>" or "fl(viol,...);<res>".
//
// "fault cold <op>": the operation runs on a tree object that was only constructed, not loaded
// (nothing cached: first/latest version are discovered by the faulted operation itself).
func (s *Sys) execFault(op []string) string {
	if op[0] == "import" {
		return s.execFaultImport(atoi(op[1]))
	}
	if op[0] == "bigimport" {
		return execFaultBigImport(int(atoi(op[1])))
	}
	if op[0] == "reopen" {
		return s.execFaultReopen(op)
	}
	cold := false
	if op[0] == "cold" {
		cold = true
		op = op[1:]
	}
	pre := snapshotDB(s.db)
	pending := append([][]string{}, s.pending...)
	fast := s.fastNow
	baseVersion := int64(0)
	if s.tree != nil {
		baseVersion = s.tree.Version()
	}
	// run on an image with the given failing positions; returns result, calls, injected, image system
	runOn := func(failAt map[int]bool) (string, int, int, *Sys, string) {
		db := imageDB(pre, nil)
		h := &hooks{}
		wdb := &wrapDB{inner: db, h: h}
		t := iavl.NewMutableTree(wdb, s.cfg.Cache, !fast, iavl.NewNopLogger(), s.options()...)
		var err error
		if cold {
			sys := &Sys{cfg: s.cfg, db: wdb, base: db, tree: t, fastNow: fast, hooks: h}
			h.failAt = failAt
			r := sys.Exec(op)
			h.failAt = nil
			return r, h.calls, h.failed, sys, h.failKind
		}
		if baseVersion > 0 {
			_, err = t.LoadVersion(baseVersion)
		} else {
			_, err = t.Load()
		}
		sys := &Sys{cfg: s.cfg, db: wdb, base: db, tree: t, fastNow: fast, hooks: h}
		if err != nil {
			return "openerr", 0, 0, sys, ""
		}
		for _, p := range pending {
			sys.Exec(p)
		}
		h.calls = 0
		h.failAt = failAt
		r := sys.Exec(op)
		h.failAt = nil
		return r, h.calls, h.failed, sys, h.failKind
	}
	ref, n, _, refSys, _ := runOn(nil)
	_ = refSys.tree.Close()
	if ref == "openerr" {
		return "fl(skip);" + s.Exec(op)
	}
	var oldD, newD string
	pruneTo := -1
	if op[0] == "prune" {
		pruneTo = int(atoi(op[1]))
	}
	// for a deletion only the versions it is not deleting are compared (see crash.go)
	view := func(d treeDump) string {
		if pruneTo >= 0 {
			return d.above(pruneTo)
		}
		return d.walkOnly()
	}
	if isWriteOp(op) {
		t0, err := s.openOn(imageDB(pre, nil), fast)
		if err == nil {
			oldD = view(dumpTree(t0))
			_ = t0.Close()
		}
		t1, err := s.openOn(refSys.base, fast)
		if err == nil {
			newD = view(dumpTree(t1))
			_ = t1.Close()
		}
	}
	injected := 0
	var vkinds []string
	firstViol, firstFault, firstGot := "", "", ""
	for i := 1; i <= n; i++ {
		r, _, inj, sys, kind := runOn(map[int]bool{i: true})
		injected += inj
		verdict := ""
		switch {
		case strings.HasPrefix(r, "panic"):
			verdict = "panic"
		case inj > 0 && !isErrRes(r) && r != ref:
			verdict = "wronganswer"
		case inj > 0 && isWriteOp(op) && !isErrRes(r) && (kind == "bset" || kind == "bdelete" || kind == "bwrite" || kind == "set" || kind == "delete"):
			verdict = "writefailedok"
		}
		_ = sys.tree.Close()
		// the database left behind is examined also when the failed write went unreported
		verdict2 := ""
		if (verdict == "" || verdict == "writefailedok") && inj > 0 && isWriteOp(op) {
			t2, err := s.openOn(sys.base, fast)
			if err != nil {
				verdict2 = "reopenerr"
			} else {
				d := view(dumpTree(t2))
				_ = t2.Close()
				if d != oldD && d != newD {
					if os.Getenv("VERIF_DEBUG") != "" {
						fmt.Fprintf(os.Stderr, "DEBUG fault %v at %d/%d kind=%s\nOLD %s\nNEW %s\nGOT %s\n", op, i, n, kind, oldD, newD, d)
					}
					verdict2 = "reopenmixture"
				}
			}
		}
		for _, verdict := range []string{verdict, verdict2} {
			if verdict == "" {
				continue
			}
			seen := false
			for _, k := range vkinds {
				if k == verdict {
					seen = true
				}
			}
			if !seen {
				if len(vkinds) == 0 {
					firstViol = fmt.Sprintf("i=%d/%d", i, n)
					firstFault, firstGot = kind, firstLine(r)
				}
				vkinds = append(vkinds, verdict)
			}
		}
	}
	if len(vkinds) > 0 {
		// every position is explored; the result names every kind of symptom
		return fmt.Sprintf("fl(viol,op=%s,%s,kind=%s,fault=%s,got=%s);%s", strings.Join(op, "_"), firstViol, strings.Join(vkinds, "+"), firstFault, firstGot, s.Exec(op))
	}
	return fmt.Sprintf("fl(ok,n=%d,inj=%d);%s", n, injected, s.Exec(op))
}

// execFaultImport: "fault import v". Version v of the live tree is exported (fault-free) and the
// stream is imported into a fresh database below the fault-injecting wrapper, once per explored
// fault position: every batch write (the background batches of a large import included), the
// first and last calls and a sample of the others when there are many. Verdict per position: an
// injected fault must make Add or Commit return an error, and the database left behind must
// reopen either empty (nothing imported) or with version v complete (hash and contents).
func (s *Sys) execFaultImport(v int64) string {
	imm, err := s.tree.GetImmutable(v)
	if err != nil {
		return "fl(skip);err"
	}
	nodes, err := exportAll(imm)
	if err != nil {
		return "fl(skip);err"
	}
	return faultImportNodes(nodes, v, imm.Hash(), imm.Size())
}

// execFaultBigImport: "fault bigimport <leaves>". A tree with that many leaves is built in a scratch
// database (it is not part of the modelled history), exported, and imported under faults: with more
// than 10000 leaves the import spans three or more background batches.
func execFaultBigImport(leaves int) string {
	db := dbm.NewMemDB()
	t := iavl.NewMutableTree(db, 0, true, iavl.NewNopLogger())
	for i := 0; i < leaves; i++ {
		if _, err := t.Set([]byte(fmt.Sprintf("key%07d", i*7919%10000019)), []byte(fmt.Sprint(i))); err != nil {
			return "fl(skip);ok"
		}
	}
	if _, _, err := t.SaveVersion(); err != nil {
		return "fl(skip);ok"
	}
	imm, err := t.GetImmutable(1)
	if err != nil {
		return "fl(skip);ok"
	}
	nodes, err := exportAll(imm)
	if err != nil {
		return "fl(skip);ok"
	}
	return faultImportNodes(nodes, 1, imm.Hash(), imm.Size())
}

func faultImportNodes(nodes []*iavl.ExportNode, v int64, wantHash []byte, wantSize int64) string {
	var failNth map[string]int // set for the runs that fail the k-th batch write whatever its position
	hung := false
	var run func(failAt map[int]bool, trace bool) (*hooks, *dbm.MemDB, error)
	run1 := func(failAt map[int]bool, trace bool) (*hooks, *dbm.MemDB, error) {
		db := dbm.NewMemDB()
		h := &hooks{failAt: failAt, trace: trace, failNth: failNth}
		wdb := &wrapDB{inner: db, h: h}
		t := iavl.NewMutableTree(wdb, 0, true, iavl.NewNopLogger())
		h.calls = 0
		imp, err := t.Import(v)
		if err != nil {
			return h, db, err
		}
		defer imp.Close()
		for _, n := range nodes {
			if err := imp.Add(n); err != nil {
				return h, db, err
			}
		}
		return h, db, imp.Commit()
	}
	// watchdog: an import that never returns (Add, Commit or the deferred Close) is a verdict
	run = func(failAt map[int]bool, trace bool) (*hooks, *dbm.MemDB, error) {
		type res struct {
			h   *hooks
			db  *dbm.MemDB
			err error
		}
		done := make(chan res, 1)
		go func() {
			h, db, err := run1(failAt, trace)
			done <- res{h, db, err}
		}()
		select {
		case r := <-done:
			return r.h, r.db, r.err
		case <-time.After(60 * time.Second):
			hung = true
			return &hooks{}, dbm.NewMemDB(), fmt.Errorf("hang")
		}
	}
	ref, _, err := run(nil, true)
	if hung {
		return fmt.Sprintf("fl(viol,op=import_%d,i=0/0,kind=hang,fault=none,got=hang);ok", v)
	}
	if err != nil {
		return "fl(skip);ok"
	}
	n := ref.calls
	pos := map[int]bool{1: true, n: true}
	for i, k := range ref.seq {
		if k == "bwrite" || n <= 400 {
			pos[i+1] = true
		}
	}
	for i := 0; i < 24 && n > 400; i++ {
		pos[1+(i*7919)%n] = true
	}
	injected := 0
	firstAborted := ""
	// the batch writes of a large import run in a background goroutine: their position among the
	// other calls varies from run to run, so each of them is also failed by its ordinal
	nbw := 0
	for _, k := range ref.seq {
		if k == "bwrite" {
			nbw++
		}
	}
	for k := 1; k <= nbw; k++ {
		failNth = map[string]int{"bwrite": k}
		h, db, err := run(nil, false)
		failNth = nil
		if hung {
			return fmt.Sprintf("fl(viol,op=import_%d,i=%d/%d,kind=hang,fault=bwrite%d,got=hang);ok", v, 10001*k, n, k)
		}
		injected += h.failed
		if h.failed == 0 {
			continue
		}
		if verdict := importVerdict(db, err, v, wantHash, wantSize); verdict != "" {
			res := fmt.Sprintf("fl(viol,op=import_%d,i=%d/%d,kind=%s,fault=bwrite%d);ok", v, 10001*k, n, verdict, k)
			if verdict == "reopenerr" && k >= 2 {
				if firstAborted == "" {
					firstAborted = res
				}
				continue
			}
			return res
		}
	}
	for i := 1; i <= n; i++ {
		if !pos[i] {
			continue
		}
		h, db, err := run(map[int]bool{i: true}, false)
		if hung {
			return fmt.Sprintf("fl(viol,op=import_%d,i=%d/%d,kind=hang,fault=call,got=hang);ok", v, i, n)
		}
		injected += h.failed
		if h.failed == 0 {
			continue
		}
		verdict := importVerdict(db, err, v, wantHash, wantSize)
		if verdict != "" {
			res := fmt.Sprintf("fl(viol,op=import_%d,i=%d/%d,kind=%s,fault=%s);ok", v, i, n, verdict, h.failKind)
			// an import aborted after a background batch was written leaves nodes without a root and
			// the database no longer loads (recorded finding): keep exploring, any other symptom is
			// reported in preference
			if verdict == "reopenerr" && i > 10000 {
				if firstAborted == "" {
					firstAborted = res
				}
				continue
			}
			return res
		}
	}
	if firstAborted != "" {
		return firstAborted
	}
	return fmt.Sprintf("fl(ok,n=%d,inj=%d);ok", n, injected)
}

// execFaultReopen: "fault reopen fast=true|false". A new tree object is opened (Load, which may
// build or rebuild the fast index) on an image of the database with every single storage call
// failing in turn. Verdict per position: Load reports an error, or everything the opened tree
// serves (tree walk and index-served reads of every version and of the working tree) equals
// what the fault-free open serves; and whatever Load reported, a later fault-free open of the
// database left behind serves the same.
func (s *Sys) execFaultReopen(op []string) string {
	pre := snapshotDB(s.db)
	fast := s.fastNow
	if len(op) > 1 {
		fast = op[1] == "fast=true"
	}
	runOn := func(failAt map[int]bool) (string, int, int, *dbm.MemDB, string) {
		db := imageDB(pre, nil)
		h := &hooks{failAt: failAt}
		wdb := &wrapDB{inner: db, h: h}
		t := iavl.NewMutableTree(wdb, s.cfg.Cache, !fast, iavl.NewNopLogger(), s.options()...)
		_, err := t.Load()
		n := h.calls
		h.failAt = nil
		if err != nil {
			_ = t.Close()
			return "err", n, h.failed, db, h.failKind
		}
		d := dumpTree(t).String()
		_ = t.Close()
		return d, n, h.failed, db, h.failKind
	}
	ref, n, _, _, _ := runOn(nil)
	if ref == "err" {
		return "fl(skip);" + s.Exec(op)
	}
	injected := 0
	for i := 1; i <= n; i++ {
		r, _, inj, db, kind := runOn(map[int]bool{i: true})
		injected += inj
		if inj == 0 {
			continue
		}
		verdict := ""
		if r != "err" && r != ref {
			verdict = "wronganswer"
		}
		if verdict == "" {
			t2, err := s.openOn(db, fast)
			if err != nil {
				verdict = "reopenerr"
			} else {
				if dumpTree(t2).String() != ref {
					verdict = "reopenmixture"
				}
				_ = t2.Close()
			}
		}
		if verdict != "" {
			return fmt.Sprintf("fl(viol,op=reopen,i=%d/%d,kind=%s,fault=%s);%s", i, n, verdict, kind, s.Exec(op))
		}
	}
	return fmt.Sprintf("fl(ok,n=%d,inj=%d);%s", n, injected, s.Exec(op))
}

// importVerdict judges what a faulted import left behind: the fault must have been reported, and
// the database must reopen empty or with version v complete.
func importVerdict(db *dbm.MemDB, err error, v int64, wantHash []byte, wantSize int64) string {
	if err == nil {
		return "importfailedok"
	}
	t2 := iavl.NewMutableTree(db, 0, true, iavl.NewNopLogger())
	defer t2.Close()
	lv, lerr := t2.Load()
	switch {
	case lerr != nil:
		return "reopenerr"
	case lv == 0 && len(t2.AvailableVersions()) == 0:
		return ""
	case lv == v:
		cnt := int64(0)
		im2, e2 := t2.GetImmutable(v)
		if e2 != nil {
			return "reopenmixture"
		}
		im2.IterateRange(nil, nil, true, func(_, _ []byte) bool { cnt++; return false })
		if cnt != wantSize || !bytes.Equal(im2.Hash(), wantHash) {
			return "reopenmixture"
		}
		return ""
	}
	return "reopenmixture"
}
