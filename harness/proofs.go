package main

import (
	"bytes"

	"github.com/cosmos/iavl"
	ics23 "github.com/cosmos/ics23/go"
)

// execProof is the C03 oracle on the real library and the real ICS-23 verifier.
// Result: pf(<kind>,<verifies>,<negatives rejected>) where kind = mem|non|both|none.
func (s *Sys) execProof(imm *iavl.ImmutableTree, key []byte) string {
	it := imm
	var root []byte
	if it == nil {
		it = s.tree.ImmutableTree
		root = s.tree.WorkingHash()
	} else {
		root = it.Hash()
	}
	memP, memErr := it.GetMembershipProof(key)
	nonP, nonErr := it.GetNonMembershipProof(key)
	anyP, anyErr := it.GetProof(key)
	if anyErr == nil && imm != nil {
		// the tree's own check of the proof it just produced (committed versions only: on the
		// embedded ImmutableTree of a working tree VerifyProof looks the value up through Get,
		// which must not be used there)
		if ok, err := it.VerifyProof(anyP, key); err != nil || !ok {
			return "pf(verifyproof-rejects-own-proof)"
		}
	}
	if imm != nil {
		// MutableTree.GetVersionedProof(key, v) must give the proof of the COMMITTED version v,
		// whatever the working tree holds at the moment
		vp, vErr := s.tree.GetVersionedProof(key, imm.Version())
		if (vErr == nil) != (anyErr == nil) {
			return "pf(versioned-proof-error-differs)"
		}
		if vErr == nil {
			a, e1 := vp.Marshal()
			b, e2 := anyP.Marshal()
			if e1 != nil || e2 != nil || !bytes.Equal(a, b) {
				return "pf(versioned-proof-differs)"
			}
		}
	}
	kind := "none"
	switch {
	case memErr == nil && nonErr == nil:
		kind = "both"
	case memErr == nil:
		kind = "mem"
	case nonErr == nil:
		kind = "non"
	}
	// the tree walk, not the index: the embedded ImmutableTree of a working tree must not be
	// asked through Get (the MutableTree doc forbids using it directly; its index lags behind)
	_, val, _ := it.GetWithIndex(key)
	verifies, neg := false, true
	// other versions in which the claim is false
	others := func(claimFalse func(o *iavl.ImmutableTree) bool, verify func(r []byte) bool) bool {
		ok := true
		for _, v := range s.tree.AvailableVersions() {
			o, err := s.tree.GetImmutable(int64(v))
			if err != nil || o == nil {
				continue
			}
			if claimFalse(o) && verify(o.Hash()) {
				ok = false
			}
		}
		return ok
	}
	switch kind {
	case "mem":
		verifies = ics23.VerifyMembership(ics23.IavlSpec, root, memP, key, val)
		// GetProof must return the same kind
		if anyErr != nil || anyP.GetExist() == nil {
			return "pf(getproof-kind)"
		}
		if !ics23.VerifyMembership(ics23.IavlSpec, root, anyP, key, val) && verifies {
			return "pf(getproof-differs)"
		}
		other := append(append([]byte{}, val...), 'x')
		if ics23.VerifyMembership(ics23.IavlSpec, root, memP, key, other) {
			neg = false
		}
		if len(val) > 0 && ics23.VerifyMembership(ics23.IavlSpec, root, memP, key, val[:len(val)-1]) {
			neg = false
		}
		k2 := append(append([]byte{}, key...), 0)
		if ics23.VerifyMembership(ics23.IavlSpec, root, memP, k2, val) {
			neg = false
		}
		if len(key) > 1 && ics23.VerifyMembership(ics23.IavlSpec, root, memP, key[:len(key)-1], val) {
			neg = false
		}
		if ics23.VerifyNonMembership(ics23.IavlSpec, root, memP, key) {
			neg = false
		}
		if !others(func(o *iavl.ImmutableTree) bool {
			_, ov, _ := o.GetWithIndex(key)
			return ov == nil || !bytes.Equal(ov, val)
		}, func(r []byte) bool { return ics23.VerifyMembership(ics23.IavlSpec, r, memP, key, val) }) {
			neg = false
		}
	case "non":
		verifies = ics23.VerifyNonMembership(ics23.IavlSpec, root, nonP, key)
		if anyErr != nil || anyP.GetNonexist() == nil {
			return "pf(getproof-kind)"
		}
		if ics23.VerifyMembership(ics23.IavlSpec, root, nonP, key, []byte("x")) {
			neg = false
		}
		// the bracketing neighbours are present keys: the proof must not work for them
		ne := nonP.GetNonexist()
		if ne.Left != nil && ics23.VerifyNonMembership(ics23.IavlSpec, root, nonP, ne.Left.Key) {
			neg = false
		}
		if ne.Right != nil && ics23.VerifyNonMembership(ics23.IavlSpec, root, nonP, ne.Right.Key) {
			neg = false
		}
		// adjacency: left < key < right and they are neighbours in the tree
		idx, _, _ := it.GetWithIndex(key)
		if ne.Left != nil {
			lk, _, _ := it.GetByIndex(idx - 1)
			if !bytes.Equal(lk, ne.Left.Key) || bytes.Compare(lk, key) >= 0 {
				return "pf(non-left-not-adjacent)"
			}
		} else if idx != 0 {
			return "pf(non-left-missing)"
		}
		if ne.Right != nil {
			rk, _, _ := it.GetByIndex(idx)
			if !bytes.Equal(rk, ne.Right.Key) || bytes.Compare(key, rk) >= 0 {
				return "pf(non-right-not-adjacent)"
			}
		} else if idx != it.Size() {
			return "pf(non-right-missing)"
		}
		if !others(func(o *iavl.ImmutableTree) bool {
			has, _ := o.Has(key)
			return has
		}, func(r []byte) bool { return ics23.VerifyNonMembership(ics23.IavlSpec, r, nonP, key) }) {
			neg = false
		}
	}
	return "pf(" + kind + "," + rBool(verifies) + "," + rBool(neg) + ")"
}

func gproof(it *iavl.ImmutableTree, root, key []byte) string {
	p, err := it.GetProof(key)
	if err != nil {
		return "err"
	}
	if ex := p.GetExist(); ex != nil {
		return "pk:mem:" + rBool(ics23.VerifyMembership(ics23.IavlSpec, root, p, key, ex.Value))
	}
	return "pk:non:" + rBool(ics23.VerifyNonMembership(ics23.IavlSpec, root, p, key))
}
