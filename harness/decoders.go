//go:build verif

package main

import (
	"bufio"
	"encoding/binary"
	"encoding/hex"
	"fmt"
	"math/rand"
	"strings"
	"time"

	"github.com/cosmos/iavl"
	dbm "github.com/cosmos/iavl/db"
	"github.com/cosmos/iavl/fastnode"
)

// ---- C13: every decoder of stored bytes on arbitrary input (machine "dec") ----

func execDec(toks []string) string {
	done := make(chan string, 1)
	go func() {
		done <- safely(func() string {
			buf := unhx(toks[2])
			switch toks[1] {
			case "uvarint":
				v, n, err := iavl.VerifDecodeUvarint(buf)
				if err != nil {
					return "err"
				}
				return fmt.Sprintf("ok:%d,%d", v, n)
			case "varint":
				v, n, err := iavl.VerifDecodeVarint(buf)
				if err != nil {
					return "err"
				}
				return fmt.Sprintf("ok:%d,%d", v, n)
			case "bytes":
				b, n, err := iavl.VerifDecodeBytes(buf)
				if err != nil {
					return "err"
				}
				return fmt.Sprintf("ok:%s,%d", hex.EncodeToString(b), n)
			case "node":
				nk := unhx(toks[3])
				n, err := iavl.MakeNode(nk, buf)
				if err != nil {
					return "err"
				}
				return "ok:" + iavl.VerifNodeString(n)
			case "legacy":
				hash := unhx(toks[3])
				n, err := iavl.MakeLegacyNode(hash, buf)
				if err != nil {
					return "err"
				}
				return "ok:" + iavl.VerifNodeString(n)
			case "fast":
				n, err := fastnode.DeserializeNode(unhx(toks[3]), buf)
				if err != nil {
					return "err"
				}
				return fmt.Sprintf("ok:F,ver=%d,v=%s", n.GetVersionLastUpdatedAt(), hex.EncodeToString(n.GetValue()))
			case "getroot":
				// a root entry with this value, read back through the public API: version 1 is a
				// one-leaf tree (k -> v) written by the library, the entry of version 2 is written
				// raw; GetImmutable(2).Get(k) must answer, or fail with an error
				db := dbm.NewMemDB()
				t := iavl.NewMutableTree(db, 0, true, iavl.NewNopLogger())
				if _, err := t.Set([]byte("k"), []byte("v")); err != nil {
					return "setuperr"
				}
				if _, _, err := t.SaveVersion(); err != nil {
					return "setuperr"
				}
				rk := make([]byte, 13)
				rk[0] = 's'
				binary.BigEndian.PutUint64(rk[1:], 2)
				binary.BigEndian.PutUint32(rk[9:], 1)
				val := buf
				if val == nil {
					val = []byte{}
				}
				if err := db.Set(rk, val); err != nil {
					return "setuperr"
				}
				t2 := iavl.NewMutableTree(db, 0, true, iavl.NewNopLogger())
				imm, err := t2.GetImmutable(2)
				if err != nil {
					return "err"
				}
				got, err := imm.Get([]byte("k"))
				if err != nil {
					return "err"
				}
				if got == nil {
					return "ok:nil"
				}
				return "ok:" + hex.EncodeToString(got)
			case "root":
				if len(buf) == 0 { // the empty root record: classified as "not a reference" without a panic
					_, _ = iavl.VerifIsReferenceRoot(buf)
					return "ok:empty"
				}
				isRef, n := iavl.VerifIsReferenceRoot(buf)
				return fmt.Sprintf("ok:%v,%d", isRef, n)
			}
			return "badop"
		})
	}()
	select {
	case r := <-done:
		return r
	case <-time.After(10 * time.Second):
		return "hang"
	}
}

func runDec(w *bufio.Writer, c Case, cs string, stats map[string]int) {
	for _, op := range c.Ops {
		res := execDec(op)
		stats["op:dec:"+op[1]]++
		kind := res
		if i := strings.Index(kind, ":"); i > 0 {
			kind = kind[:i]
		}
		stats["x:"+op[1]+":"+kind]++
		fmt.Fprintf(w, "%s => %s\n", strings.Join(op, " "), res)
	}
}

func uv(x uint64) []byte {
	var b [10]byte
	n := binary.PutUvarint(b[:], x)
	return b[:n]
}
func sv(x int64) []byte {
	var b [10]byte
	n := binary.PutVarint(b[:], x)
	return b[:n]
}
func lp(b []byte) []byte { return append(uv(uint64(len(b))), b...) }

func mutate(r *rand.Rand, b []byte) []byte {
	b = append([]byte{}, b...)
	switch r.Intn(8) {
	case 0: // truncate
		if len(b) > 0 {
			b = b[:r.Intn(len(b))]
		}
	case 1: // flip a byte
		if len(b) > 0 {
			b[r.Intn(len(b))] ^= byte(1 << uint(r.Intn(8)))
		}
	case 2: // set a byte to an extreme
		if len(b) > 0 {
			b[r.Intn(len(b))] = []byte{0x00, 0x7f, 0x80, 0xff, 0x01}[r.Intn(5)]
		}
	case 3: // insert continuation bytes (overlong varint)
		i := r.Intn(len(b) + 1)
		ins := make([]byte, 1+r.Intn(11))
		for j := range ins {
			ins[j] = 0x80 | byte(r.Intn(128))
		}
		b = append(b[:i], append(ins, b[i:]...)...)
	case 4: // oversize length
		i := r.Intn(len(b) + 1)
		b = append(b[:i], append(uv(uint64(1)<<uint(r.Intn(64))), b[i:]...)...)
	case 5: // append garbage
		g := make([]byte, r.Intn(5))
		r.Read(g)
		b = append(b, g...)
	case 6: // splice
		if len(b) > 2 {
			i, j := r.Intn(len(b)), r.Intn(len(b))
			if i > j {
				i, j = j, i
			}
			b = append(b[:i], b[j:]...)
		}
	}
	return b
}

func randBytes(r *rand.Rand, n int) []byte {
	b := make([]byte, n)
	r.Read(b)
	return b
}

func genDec(r *rand.Rand, tier, id string) Case {
	c := Case{ID: id, Kind: "dec", Cfgs: []string{""}}
	nk := make([]byte, 12)
	binary.BigEndian.PutUint64(nk, uint64(1+r.Intn(1000)))
	binary.BigEndian.PutUint32(nk[8:], uint32(1+r.Intn(50)))
	hash := randBytes(r, 32)
	add := func(kind string, buf []byte, extra ...[]byte) {
		op := []string{"dec", kind, hx(buf)}
		if len(buf) == 0 {
			op[2] = "."
		}
		for _, e := range extra {
			op = append(op, hx(e))
		}
		c.Ops = append(c.Ops, op)
	}
	for i := 0; i < 40; i++ {
		// valid encodings first
		key, val := randBytes(r, r.Intn(6)), randBytes(r, r.Intn(6))
		leaf := append(append(append(sv(0), sv(1)...), lp(key)...), lp(val)...)
		h := int64(1 + r.Intn(20))
		size := int64(2 + r.Intn(1000))
		mode := int64(r.Intn(4))
		inner := append(append(append(sv(h), sv(size)...), lp(key)...), lp(randBytes(r, 32))...)
		inner = append(inner, sv(mode)...)
		child := func(legacy bool) []byte {
			if legacy {
				return lp(randBytes(r, 32))
			}
			return append(sv(int64(r.Intn(1<<20))), sv(int64(r.Intn(1<<16)))...)
		}
		inner = append(inner, child(mode&1 != 0)...)
		inner = append(inner, child(mode&2 != 0)...)
		legacyLeaf := append(append(append(append(sv(0), sv(1)...), sv(int64(1+r.Intn(100)))...), lp(key)...), lp(val)...)
		legacyInner := append(append(append(append(sv(h), sv(size)...), sv(int64(1+r.Intn(100)))...), lp(key)...), append(lp(randBytes(r, 32)), lp(randBytes(r, 32))...)...)
		fast := append(sv(int64(r.Intn(1<<30))), lp(val)...)
		ref := append([]byte{'s'}, nk...)
		var buf []byte
		var kind string
		if r.Intn(4) == 0 {
			// root entries read back through GetRoot: references in the 13-byte and in the old
			// 9-byte form (to the existing version, to themselves, to nothing), the empty root, node
			// encodings, and mutations / truncations of all of them
			mk := func(v uint64, n uint32, short bool) []byte {
				b := make([]byte, 13)
				b[0] = 's'
				binary.BigEndian.PutUint64(b[1:], v)
				binary.BigEndian.PutUint32(b[9:], n)
				if short {
					return b[:9]
				}
				return b
			}
			kleaf := append(append(append(sv(0), sv(1)...), lp([]byte("k"))...), lp(val)...)
			cands := [][]byte{mk(1, 1, false), mk(1, 1, true), mk(1, 0, false), mk(1, 2, false), mk(2, 1, false), mk(2, 1, true),
				mk(9, 1, false), mk(9, 1, true), {}, kleaf, leaf, inner, mk(1, 1, false)[:r.Intn(13)+1]}
			b := cands[r.Intn(len(cands))]
			if r.Intn(3) == 0 {
				b = mutate(r, b)
			}
			add("getroot", b)
			continue
		}
		switch r.Intn(9) {
		case 0:
			kind, buf = "node", leaf
		case 1, 2:
			kind, buf = "node", inner
		case 3:
			kind, buf = "legacy", legacyLeaf
		case 4:
			kind, buf = "legacy", legacyInner
		case 5:
			kind, buf = "fast", fast
		case 6:
			kind, buf = "root", [][]byte{ref, ref[:9], {}, leaf, inner}[r.Intn(5)]
		case 7:
			kind, buf = []string{"uvarint", "varint"}[r.Intn(2)], uv(r.Uint64()>>uint(r.Intn(64)))
		case 8:
			kind, buf = "bytes", lp(val)
		}
		switch r.Intn(4) {
		case 0: // as is
		case 1, 2:
			buf = mutate(r, buf)
			if r.Intn(3) == 0 {
				buf = mutate(r, buf)
			}
		case 3:
			buf = randBytes(r, r.Intn(24))
		}
		switch kind {
		case "node":
			k := nk
			if r.Intn(12) == 0 {
				k = randBytes(r, r.Intn(20))
			}
			add(kind, buf, k)
		case "legacy":
			add(kind, buf, hash)
		case "fast":
			add(kind, buf, key)
		default:
			add(kind, buf)
		}
	}
	return c
}

func init() {
	runners["dec"] = runDec
	generators["C13d"] = genDec
	generators["C13v"] = genBigValues
}

// genBigValues: values whose length prefix sits at the two-byte / three-byte uvarint boundary
// (16383, 16384, 16385) and a large one (70000 bytes): written, read back through every path,
// committed, re-read after reopening, decoded from the raw store, exported and imported. The case
// is short: such a value is printed by every operation that returns it.
func genBigValues(r *rand.Rand, tier, id string) Case {
	c := Case{ID: id, Kind: "m1", Params: []string{"iv=-"}, Cfgs: configsFor(r, tier, 1)}
	n := []int{16383, 16384, 16385}[r.Intn(3)]
	if tier != "quick" && r.Intn(4) == 0 {
		n = 70000
	}
	big := make([]byte, n)
	r.Read(big)
	k := []string{"61", "6d", "7a"}
	add := func(op ...string) { c.Ops = append(c.Ops, op) }
	add("set", k[0], "31")
	add("set", k[1], hx(big))
	add("set", k[2], "33")
	add("r", "w", "get", k[1])
	add("r", "w", "hash")
	add("save")
	add("r", "v1", "get", k[1])
	add("r", "v1", "proof", k[1])
	add("audit", "raw")
	add("audit", "fastvals")
	add("reopen")
	add("r", "w", "get", k[1])
	add("r", "v1", "iter", k[1], k[2], "0", "1")
	add("expimp", "1", []string{"plain", "compress"}[r.Intn(2)], i64(r.Int63n(1<<30)))
	add("set", k[1], "32")
	add("save")
	add("changes", "1", "3")
	add("prune", "1")
	add("audit", "nodes")
	add("r", "v2", "get", k[1])
	return c
}
