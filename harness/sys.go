package main

import (
	"crypto/md5"
	"encoding/binary"
	"encoding/hex"
	"fmt"
	"io"
	"math"
	"os"
	"strconv"
	"strings"

	corestore "cosmossdk.io/core/store"
	"github.com/cosmos/iavl"
	dbm "github.com/cosmos/iavl/db"
)

// Config is one point of the configuration sweep. The model has no such inputs.
type Config struct {
	Cache   int
	Fast    bool // fast index enabled (skipFastStorageUpgrade = !Fast)
	Flush   int
	Sync    bool
	Initial int64  // -1: option not passed
	Backend string // memdb | prefix | leveldb | prefixleveldb
	Wrap    bool   // interpose the recording / counting / fault-injecting wrapper
	IvLate  bool   // the initial version is set by SetInitialVersion after the first writes and a WorkingHash, not by the option
}

func (c Config) String() string {
	w := ""
	if c.Wrap {
		w = ",wrap=true"
	}
	if c.IvLate {
		w += ",ivlate=true"
	}
	return fmt.Sprintf("cache=%d,fast=%v,flush=%d,sync=%v,backend=%s%s", c.Cache, c.Fast, c.Flush, c.Sync, c.Backend, w)
}

func parseConfig(s string, initial int64) Config {
	c := Config{Cache: 1000, Fast: true, Flush: 100000, Initial: initial, Backend: "memdb"}
	for _, f := range strings.Split(s, ",") {
		kv := strings.SplitN(f, "=", 2)
		if len(kv) != 2 {
			continue
		}
		switch kv[0] {
		case "cache":
			c.Cache = int(atoi(kv[1]))
		case "fast":
			c.Fast = kv[1] == "true"
		case "flush":
			c.Flush = int(atoi(kv[1]))
		case "sync":
			c.Sync = kv[1] == "true"
		case "backend":
			c.Backend = kv[1]
		case "wrap":
			c.Wrap = kv[1] == "true"
		case "ivlate":
			c.IvLate = kv[1] == "true"
		}
	}
	return c
}

// Sys is the real library under one configuration.
type Sys struct {
	cfg      Config
	base     corestore.KVStoreWithBatch // the bottom database (for raw scans / closing)
	db       corestore.KVStoreWithBatch // what the tree sees
	dir      string
	tree     *iavl.MutableTree
	wrap     func(corestore.KVStoreWithBatch) corestore.KVStoreWithBatch
	fastNow  bool // fast setting of the current open (may be overridden per reopen)
	hooks    *hooks
	pending  [][]string     // successful uncommitted writes since the last clean point
	ivDone   bool           // IvLate: SetInitialVersion has been called
	ivWrites int            // IvLate: writes before that
	cstats   map[string]int // statistics of the cache audits
}

func newSys(cfg Config) (*Sys, error) {
	s := &Sys{cfg: cfg, fastNow: cfg.Fast}
	switch cfg.Backend {
	case "memdb", "prefix":
		s.base = dbm.NewMemDB()
	case "leveldb", "prefixleveldb":
		dir, err := os.MkdirTemp("", "verif-ldb-")
		if err != nil {
			return nil, err
		}
		s.dir = dir
		ldb, err := dbm.NewGoLevelDB("t", dir)
		if err != nil {
			return nil, err
		}
		s.base = ldb
	default:
		return nil, fmt.Errorf("unknown backend %s", cfg.Backend)
	}
	s.db = s.base
	if strings.HasPrefix(cfg.Backend, "prefix") {
		s.db = dbm.NewPrefixDB(s.base, []byte{0x73, 0xff, 0x00}) // "s" 0xFF 0x00: awkward prefix on purpose
	}
	if cfg.Wrap {
		s.hooks = &hooks{}
		s.db = &wrapDB{inner: s.db, h: s.hooks}
	}
	return s, nil
}

func (s *Sys) options() []iavl.Option {
	opts := []iavl.Option{iavl.FlushThresholdOption(s.cfg.Flush), iavl.SyncOption(s.cfg.Sync)}
	if s.cfg.Initial >= 0 && (!s.cfg.IvLate || s.ivDone) {
		opts = append(opts, iavl.InitialVersionOption(uint64(s.cfg.Initial)))
	}
	return opts
}

func (s *Sys) store() corestore.KVStoreWithBatch {
	if s.wrap != nil {
		return s.wrap(s.db)
	}
	return s.db
}

// open constructs a MutableTree on the current database and loads the latest version.
func (s *Sys) open() error {
	if s.tree != nil {
		_ = s.tree.Close()
	}
	s.tree = iavl.NewMutableTree(s.store(), s.cfg.Cache, !s.fastNow, iavl.NewNopLogger(), s.options()...)
	_, err := s.tree.Load()
	return err
}

func (s *Sys) close() {
	if s.tree != nil {
		_ = s.tree.Close()
		s.tree = nil
	}
	if c, ok := s.base.(interface{ Close() error }); ok {
		_ = c.Close()
	}
	if s.dir != "" {
		_ = os.RemoveAll(s.dir)
	}
}

func errStr(err error) string {
	if err == nil {
		return "ok"
	}
	if os.Getenv("VERIF_DEBUG") != "" {
		fmt.Fprintln(os.Stderr, "DEBUG error:", err)
	}
	return "err"
}

type reader interface {
	Get(key []byte) ([]byte, error)
	Has(key []byte) (bool, error)
	GetWithIndex(key []byte) (int64, []byte, error)
	GetByIndex(index int64) ([]byte, []byte, error)
	Size() int64
	Height() int8
	Iterator(start, end []byte, ascending bool) (corestore.Iterator, error)
	Iterate(fn func(key []byte, value []byte) bool) (bool, error)
}

func collectIter(it corestore.Iterator, err error) string {
	if err != nil {
		return "err"
	}
	defer it.Close()
	var out []kv
	for ; it.Valid(); it.Next() {
		out = append(out, kv{append([]byte{}, it.Key()...), append([]byte{}, it.Value()...)})
		if len(out) > 100000 {
			return "runaway"
		}
	}
	if it.Error() != nil {
		return "err"
	}
	return rKvs(out)
}

// execRead runs one read on the working tree (imm == nil) or on an immutable version.
func (s *Sys) execRead(imm *iavl.ImmutableTree, toks []string) string {
	var r reader
	if imm != nil {
		r = imm
	} else {
		r = s.tree
	}
	switch toks[0] {
	case "get":
		v, err := r.Get(unhx(toks[1]))
		if err != nil {
			return "err"
		}
		return rBytes(v)
	case "has":
		b, err := r.Has(unhx(toks[1]))
		if err != nil {
			return "err"
		}
		return rBool(b)
	case "gwi":
		i, v, err := r.GetWithIndex(unhx(toks[1]))
		if err != nil {
			return "err"
		}
		return rPair(rInt(i), rBytes(v))
	case "gbi":
		k, v, err := r.GetByIndex(atoi(toks[1]))
		if err != nil {
			return "err"
		}
		return rPair(rBytes(k), rBytes(v))
	case "size":
		return rInt(r.Size())
	case "height":
		return rInt(int64(r.Height()))
	case "iter": // Iterator (exclusive) / IterateRangeInclusive (inclusive)
		start, end := unhx(toks[1]), unhx(toks[2])
		incl, asc := toks[3] == "1", toks[4] == "1"
		if !incl {
			return collectIter(r.Iterator(start, end, asc))
		}
		var out []kv
		it := imm
		if it == nil {
			it = s.tree.ImmutableTree
		}
		it.IterateRangeInclusive(start, end, asc, func(k, v []byte, _ int64) bool {
			out = append(out, kv{k, v})
			return false
		})
		return rKvs(out)
	case "iterr": // IterateRange callback form
		start, end := unhx(toks[1]), unhx(toks[2])
		asc := toks[4] == "1"
		var out []kv
		it := imm
		if it == nil {
			it = s.tree.ImmutableTree
		}
		it.IterateRange(start, end, asc, func(k, v []byte) bool {
			out = append(out, kv{k, v})
			return false
		})
		return rKvs(out)
	case "istop":
		// istop <it|ir|ii> <start> <end> <asc> <n>: the callback asks to stop at the n-th element;
		// result: the elements delivered and the "stopped" flag the call returns
		start, end := unhx(toks[2]), unhx(toks[3])
		asc := toks[4] == "1"
		n := int(atoi(toks[5]))
		var out []kv
		cb := func(k, v []byte) bool {
			out = append(out, kv{append([]byte{}, k...), append([]byte{}, v...)})
			return len(out) >= n
		}
		it := imm
		if it == nil {
			it = s.tree.ImmutableTree
		}
		stopped := false
		switch toks[1] {
		case "it":
			var err error
			if imm == nil {
				stopped, err = s.tree.Iterate(cb)
			} else {
				stopped, err = imm.Iterate(cb)
			}
			if err != nil {
				return "err"
			}
		case "ir":
			stopped = it.IterateRange(start, end, asc, cb)
		case "ii":
			stopped = it.IterateRangeInclusive(start, end, asc, func(k, v []byte, _ int64) bool { return cb(k, v) })
		}
		return fmt.Sprintf("st(%v;%s)", stopped, rKvs(out))
	case "iterate": // Iterate callback, whole tree ascending
		var out []kv
		_, err := r.Iterate(func(k, v []byte) bool {
			out = append(out, kv{append([]byte{}, k...), append([]byte{}, v...)})
			return false
		})
		if err != nil {
			return "err"
		}
		return rKvs(out)
	case "hash":
		if imm != nil {
			return rBytes(imm.Hash())
		}
		return rBytes(s.tree.WorkingHash())
	case "proof":
		return s.execProof(imm, unhx(toks[1]))
	case "proofbytes":
		it := imm
		if it == nil {
			it = s.tree.ImmutableTree
			_ = s.tree.WorkingHash()
		}
		p, err := it.GetProof(unhx(toks[1]))
		if err != nil {
			return "err"
		}
		bz, err := p.Marshal()
		if err != nil {
			return "err"
		}
		return "pb:" + hex.EncodeToString(bz)
	case "gproof": // GetProof alone, verified with the value carried by the proof itself
		it := imm
		var root []byte
		if it == nil {
			it = s.tree.ImmutableTree
			root = s.tree.WorkingHash()
		} else {
			root = it.Hash()
		}
		return gproof(it, root, unhx(toks[1]))
	case "export":
		if imm == nil {
			return "ex-working"
		}
		nodes, err := exportAll(imm)
		if err != nil {
			return "err"
		}
		return exString(nodes)
	case "touch": // read-only calls that are allowed to memoise but must not change any answer
		it := imm
		if it == nil {
			it = s.tree.ImmutableTree
		}
		k := unhx(toks[1])
		// whichever call comes first is the one that memoises: the order depends on the key
		if it.Size() > 0 && len(k)%2 == 1 {
			iavl.WriteDOTGraph(io.Discard, it, nil)
		}
		if len(k)%3 == 0 {
			_, _ = it.RenderShape("  ", nil)
		}
		_, _ = it.GetMembershipProof(k)
		_, _ = it.GetNonMembershipProof(k)
		_, _ = it.GetProof(k)
		_ = it.Hash()
		_, _, _ = it.GetWithIndex(k)
		// rendering / debugging helpers are read-only calls too
		if it.Size() > 0 {
			iavl.WriteDOTGraph(io.Discard, it, nil)
		}
		_ = it.String()
		_, _ = it.RenderShape("  ", nil)
		_, _ = it.VerifyMembership(nil, k)
		return "ok"
	}
	return "badread"
}

// Exec runs one m1 operation and keeps track of the uncommitted writes.
func (s *Sys) Exec(toks []string) string {
	if s.cfg.IvLate && !s.ivDone && s.cfg.Initial >= 0 {
		if toks[0] != "set" && toks[0] != "rm" {
			// the writes so far were made without an initial version, with a working-hash query after
			// every odd-numbered one (so the last query may be followed by a write or not); now the
			// initial version is set: from here on the tree is the model's tree with that initial version
			s.tree.SetInitialVersion(uint64(s.cfg.Initial))
			s.ivDone = true
		} else {
			defer func() {
				s.ivWrites++
				if s.ivWrites%2 == 1 {
					_ = s.tree.WorkingHash()
				}
			}()
		}
	}
	if toks[0] == "crash" {
		return s.execCrash(toks[1:])
	}
	if toks[0] == "fault" {
		return s.execFault(toks[1:])
	}
	res := s.exec1(toks)
	switch toks[0] {
	case "set", "rm":
		if !strings.HasPrefix(res, "err") && !strings.HasPrefix(res, "panic") {
			s.pending = append(s.pending, toks)
		}
	case "save", "wsave", "ctab", "rollback", "reopen", "reopenat", "load", "lvfo", "wlvfo", "dvreload", "dvfrom", "savecs":
		if !strings.HasPrefix(res, "err") {
			s.pending = nil
		}
	}
	return res
}

// exec1 runs one m1 operation (tokens of an op line) and returns the canonical result term.
func (s *Sys) exec1(toks []string) string {
	return safely(func() string {
		t := s.tree
		switch toks[0] {
		case "set":
			upd, err := t.Set(unhx(toks[1]), unhx(toks[2]))
			if err != nil {
				return "err"
			}
			return rBool(upd)
		case "setnil":
			_, err := t.Set(unhx(toks[1]), nil)
			return errStr(err)
		case "rm":
			v, removed, err := t.Remove(unhx(toks[1]))
			if err != nil {
				return "err"
			}
			return rPair(rBytes(v), rBool(removed))
		case "wsave":
			// a commit whose physical writes are recorded: node keys in write order
			if s.hooks == nil {
				return "ws-nowrap"
			}
			s.hooks.writes = nil
			s.hooks.record = true
			h, v, err := t.SaveVersion()
			s.hooks.record = false
			var nodes []string
			fastSeen, nodeSeen, orderOK := false, false, true
			for _, w := range s.hooks.writes {
				for _, o := range w {
					switch {
					case len(o.k) == 13 && o.k[0] == 's' && !o.del:
						nodeSeen = true
						nodes = append(nodes, fmt.Sprintf("%d.%d", int64(binary.BigEndian.Uint64(o.k[1:9])), binary.BigEndian.Uint32(o.k[9:13])))
					case len(o.k) > 0 && (o.k[0] == 'f' || o.k[0] == 'm'):
						fastSeen = true
						if nodeSeen {
							orderOK = false // index / label writes must precede the node writes
						}
					}
				}
			}
			_ = fastSeen
			// the physical batches of the commit as BatchWithFlusher cut them (Flusher.v): threshold
			// and, per batch, the sizes of its operations in memdb's accounting (s<key>+<value> /
			// d<key>); only on a plain MemDB, whose batch size is that sum
			wb := "-"
			if s.cfg.Backend == "memdb" && s.wrap == nil {
				var bs []string
				for _, w := range s.hooks.writes {
					var os []string
					for _, o := range w {
						if o.del {
							os = append(os, fmt.Sprintf("d%d", len(o.k)))
						} else {
							os = append(os, fmt.Sprintf("s%d+%d", len(o.k), len(o.v)))
						}
					}
					bs = append(bs, strings.Join(os, ","))
				}
				// and an MD5 over every operation in order (kind, key, value): the byte stream the
				// model computes (PhysCommit.commit_bops)
				hsh := md5.New()
				for _, w := range s.hooks.writes {
					for _, o := range w {
						if o.del {
							fmt.Fprintf(hsh, "d%x;", o.k)
						} else {
							fmt.Fprintf(hsh, "s%x=%x;", o.k, o.v)
						}
					}
				}
				wb = fmt.Sprintf("%d:%s#%x", s.cfg.Flush, strings.Join(bs, "|"), hsh.Sum(nil))
			}
			s.hooks.writes = nil
			if err != nil {
				return "err"
			}
			if !orderOK {
				return "ws-order"
			}
			return rPair("ws["+strings.Join(nodes, ",")+"];wb["+wb+"]", rPair(rBytes(h), rInt(v)))
		case "ctab":
			// ctab save: a commit whose physical batches are recorded; for every batch prefix the
			// image is opened by a new tree object and the outcome of Load() is reported, indexed by
			// the number of node-store writes in the prefix: ct[<j>:<ok:version|err>;..];<result>
			if s.hooks == nil || len(toks) < 2 || toks[1] != "save" {
				h, v, err := t.SaveVersion()
				if err != nil {
					return "err"
				}
				return "ct-nowrap;" + rPair(rBytes(h), rInt(v))
			}
			pre := snapshotDB(s.db)
			s.hooks.writes = nil
			s.hooks.record = true
			h, v, err := t.SaveVersion()
			s.hooks.record = false
			writes := s.hooks.writes
			s.hooks.writes = nil
			if err != nil {
				return "err"
			}
			var ents []string
			lastJ := -1
			for i := 0; i <= len(writes); i++ {
				j := 0
				for _, w := range writes[:i] {
					for _, o := range w {
						if len(o.k) == 13 && o.k[0] == 's' {
							j++
						}
					}
				}
				img := imageDB(pre, writes[:i])
				ft := iavl.NewMutableTree(img, 0, true, iavl.NewNopLogger(), s.options()...)
				lv, lerr := ft.Load()
				res := "ok:" + strconv.FormatInt(lv, 10)
				if lerr != nil {
					res = "err"
				}
				_ = ft.Close()
				e := fmt.Sprintf("%d:%s", j, res)
				if j == lastJ {
					ents[len(ents)-1] = e
				} else {
					ents = append(ents, e)
				}
				lastJ = j
			}
			return "ct[" + strings.Join(ents, ";") + "];" + rPair(rBytes(h), rInt(v))
		case "save":
			h, v, err := t.SaveVersion()
			if err != nil {
				return "err"
			}
			return rPair(rBytes(h), rInt(v))
		case "rollback":
			t.Rollback()
			return "ok"
		case "reopen":
			if len(toks) > 1 { // reopen fast=true|false
				s.fastNow = toks[1] == "fast=true"
			}
			return errStr(s.open())
		case "reopenat":
			if len(toks) > 2 {
				s.fastNow = toks[2] == "fast=true"
			}
			if s.tree != nil {
				_ = s.tree.Close()
			}
			s.tree = iavl.NewMutableTree(s.store(), s.cfg.Cache, !s.fastNow, iavl.NewNopLogger(), s.options()...)
			v, err := s.tree.LoadVersion(atoi(toks[1]))
			if err != nil {
				return "err"
			}
			return rInt(v)
		case "load":
			v, err := t.LoadVersion(atoi(toks[1]))
			if err != nil {
				return "err"
			}
			return rInt(v)
		case "prune":
			return errStr(t.DeleteVersionsTo(atoi(toks[1])))
		case "wprune":
			// a deletion whose physical node-store writes are recorded: the operations on 's' keys in
			// write order and the positions (number of such writes issued before) at which the write
			// batch reached the database; wp(<ok|err>;ops=..;fl=..)
			if s.hooks == nil {
				return "wp-nowrap(" + errStr(t.DeleteVersionsTo(atoi(toks[1]))) + ")"
			}
			present := map[string]bool{}
			for k := range snapshotDB(s.db) {
				if len(k) == 13 && k[0] == 's' {
					present[k] = true
				}
			}
			s.hooks.writes = nil
			s.hooks.record = true
			err := t.DeleteVersionsTo(atoi(toks[1]))
			s.hooks.record = false
			// effective writes only: a deletion of a key that is absent (from the database and the
			// batch) at that moment is not counted; positions count effective writes
			var ops, fl []string
			n := 0
			for bi, w := range s.hooks.writes {
				if bi > 0 && n > 0 && (len(fl) == 0 || fl[len(fl)-1] != strconv.Itoa(n)) {
					fl = append(fl, strconv.Itoa(n))
				}
				for _, o := range w {
					if len(o.k) == 13 && o.k[0] == 's' {
						c := "s"
						if o.del {
							if !present[string(o.k)] {
								continue
							}
							delete(present, string(o.k))
							c = "d"
						} else {
							present[string(o.k)] = true
						}
						ops = append(ops, fmt.Sprintf("%s%d.%d", c, int64(binary.BigEndian.Uint64(o.k[1:9])), binary.BigEndian.Uint32(o.k[9:13])))
						n++
					}
				}
			}
			// a last batch without effective node writes: the flush before it is the final one
			if len(fl) > 0 && fl[len(fl)-1] == strconv.Itoa(n) {
				fl = fl[:len(fl)-1]
			}
			s.hooks.writes = nil
			return fmt.Sprintf("wp(%s;ops=%s;fl=%s)", errStr(err), strings.Join(ops, ","), strings.Join(fl, ","))
		case "lvfo":
			return errStr(t.LoadVersionForOverwriting(atoi(toks[1])))
		case "pintest":
			// two exports of one version, the first closed twice (allowed): the second one still
			// holds the version, deleting it must be refused; nothing is deleted by this operation
			v := atoi(toks[1])
			imm, err := t.GetImmutable(v)
			if err != nil {
				return "err"
			}
			a, err := imm.Export()
			if err != nil {
				return "err"
			}
			b, err := imm.Export()
			if err != nil {
				a.Close()
				return "err"
			}
			a.Close()
			a.Close()
			derr := t.DeleteVersionsTo(v)
			// neither may the version be removed from above (DeleteVersionsFrom(v) covers v)
			ferr := t.DeleteVersionsFrom(v)
			b.Close()
			if derr == nil {
				return "pin(viol:deleted-under-an-open-export)"
			}
			if ferr == nil {
				return "pin(viol:rolled-back-under-an-open-export)"
			}
			return "pin(ok)"
		case "dvfrom":
			// MutableTree.DeleteVersionsFrom(v) on a tree that has loaded a version below v and goes
			// on writing without reloading
			return errStr(t.DeleteVersionsFrom(atoi(toks[1])))
		case "dvreload":
			// rollback "by deleting all versions above v and reloading": DeleteVersionsFrom(v+1),
			// then either a new tree object (reopen) or LoadVersion(v) on the same one
			v := atoi(toks[1])
			if err := t.DeleteVersionsFrom(v + 1); err != nil {
				return "err"
			}
			if toks[2] == "reopen" {
				return errStr(s.open())
			}
			if _, err := t.LoadVersion(v); err != nil {
				return "err"
			}
			return "ok"
		case "wlvfo":
			// a rollback whose physical writes are recorded, in order: node deletions/sets, fast
			// index deletions/sets (values without the entry version) and label writes
			if s.hooks == nil {
				return "wl-nowrap(" + errStr(t.LoadVersionForOverwriting(atoi(toks[1]))) + ")"
			}
			s.hooks.writes = nil
			s.hooks.record = true
			err := t.LoadVersionForOverwriting(atoi(toks[1]))
			s.hooks.record = false
			var ops []string
			for _, w := range s.hooks.writes {
				for _, o := range w {
					switch {
					case len(o.k) == 13 && o.k[0] == 's':
						c := "s"
						if o.del {
							c = "d"
						}
						ops = append(ops, fmt.Sprintf("%s%d.%d", c, int64(binary.BigEndian.Uint64(o.k[1:9])), binary.BigEndian.Uint32(o.k[9:13])))
					case len(o.k) > 0 && o.k[0] == 'f':
						if o.del {
							ops = append(ops, "fd:"+hex.EncodeToString(o.k[1:]))
						} else {
							val := "BAD"
							if _, n, e := rdVarint(o.v); e == nil {
								if v, _, e2 := rdBytes(o.v[n:]); e2 == nil {
									val = hex.EncodeToString(v)
								}
							}
							ops = append(ops, "fs:"+hex.EncodeToString(o.k[1:])+"="+val)
						}
					case len(o.k) > 0 && o.k[0] == 'm':
						ops = append(ops, "L:"+string(o.v))
					}
				}
			}
			// the physical batches (operation sizes), on a plain MemDB: the rollback is two streams
			// (range delete + label; index rebuild), each ended by an explicit commit and cut by
			// BatchWithFlusher in between (Flusher.v); the model knows where the first stream ends
			wb := "-"
			if s.cfg.Backend == "memdb" && s.wrap == nil {
				var bs []string
				for _, w := range s.hooks.writes {
					var os []string
					for _, o := range w {
						if o.del {
							os = append(os, fmt.Sprintf("d%d", len(o.k)))
						} else {
							os = append(os, fmt.Sprintf("s%d+%d", len(o.k), len(o.v)))
						}
					}
					bs = append(bs, strings.Join(os, ","))
				}
				wb = fmt.Sprintf("%d:%s", s.cfg.Flush, strings.Join(bs, "|"))
			}
			s.hooks.writes = nil
			return fmt.Sprintf("wl(%s;ops=%s;wb[%s])", errStr(err), strings.Join(ops, ","), wb)
		case "r":
			if toks[1] == "w" {
				return s.execRead(nil, toks[2:])
			}
			imm, err := t.GetImmutable(atoi(toks[1][1:]))
			if err != nil {
				return "err"
			}
			return s.execRead(imm, toks[2:])
		case "getv":
			v, err := t.GetVersioned(unhx(toks[1]), atoi(toks[2]))
			if err != nil {
				return "err"
			}
			return rBytes(v)
		case "vexists":
			return rBool(t.VersionExists(atoi(toks[1])))
		case "costsweep":
			// read costs over the whole key range of the latest committed version, nothing cached:
			// existing keys and the gaps after them (lookup, existence, rank: 2h+2; proofs: 10h+10)
			if s.hooks == nil {
				return "cs(nowrap)"
			}
			lv, err := t.GetLatestVersion()
			if err != nil || lv == 0 {
				return "cs(ok)"
			}
			im, err := t.GetImmutable(lv)
			if err != nil {
				return "err"
			}
			var keys [][]byte
			im.IterateRange(nil, nil, true, func(k, _ []byte) bool { keys = append(keys, append([]byte{}, k...)); return false })
			h := int(im.Height())
			worst := ""
			check := func(what string, bound int, f func()) {
				s.hooks.gets = 0
				f()
				if s.hooks.gets > bound && worst == "" {
					worst = fmt.Sprintf("%s:reads=%d,h=%d,bound=%d", what, s.hooks.gets, h, bound)
				}
			}
			stride := len(keys)/150 + 1
			for i := 0; i < len(keys); i += stride {
				k := keys[i]
				gap := append(append([]byte{}, k...), '0')
				check("get", 2*h+2, func() { _, _ = im.Get(k) })
				check("has-gap", 2*h+2, func() { _, _ = im.Has(gap) })
				check("gwi-gap", 2*h+2, func() { _, _, _ = im.GetWithIndex(gap) })
				check("gbi", 2*h+2, func() { _, _, _ = im.GetByIndex(int64(i)) })
				check("proof", 10*h+10, func() { _, _ = im.GetProof(k) })
				check("proof-gap", 10*h+10, func() { _, _ = im.GetProof(gap) })
			}
			if worst != "" {
				return "cs(viol," + worst + ")"
			}
			return "cs(ok)"
		case "dbstring":
			// MutableTree.String() dumps the node store through the stored-bytes decoders
			if _, err := t.String(); err != nil {
				return "err"
			}
			return "ok"
		case "isempty":
			return rBool(t.IsEmpty())
		case "fastflags":
			// IsFastCacheEnabled and IsUpgradeable of the open tree object
			en, err1 := t.IsFastCacheEnabled()
			up, err2 := t.IsUpgradeable()
			if err1 != nil || err2 != nil {
				return "err"
			}
			return fmt.Sprintf("ff:%v,%v", en, up)
		case "latest":
			v, err := t.GetLatestVersion()
			if err != nil {
				return "err"
			}
			return rInt(v)
		case "avail":
			av := t.AvailableVersions()
			out := make([]int64, len(av))
			for i, v := range av {
				out[i] = int64(v)
			}
			return rInts(out)
		case "davail":
			// AvailableVersions of a tree object that was only constructed on the same database:
			// nothing is cached, the range is discovered from the stored keys (skip-fast: the
			// constructor and the query write nothing)
			ft := iavl.NewMutableTree(s.store(), 0, true, iavl.NewNopLogger(), s.options()...)
			av := ft.AvailableVersions()
			if av == nil {
				return "err"
			}
			out := make([]int64, len(av))
			for i, v := range av {
				out[i] = int64(v)
			}
			return rInts(out)
		case "whash":
			return rBytes(t.WorkingHash())
		case "wver":
			return rInt(t.WorkingVersion())
		case "hash":
			return rBytes(t.Hash())
		case "changes":
			return s.execChanges(atoi(toks[1]), atoi(toks[2]))
		case "savecs":
			v, err := t.SaveChangeSet(parsePairs(toks[1]))
			if err != nil {
				return "err"
			}
			return rInt(v)
		case "replaycs":
			return s.execReplay(len(toks) > 1 && toks[1] == "hash")
		case "cost", "hbound":
			var it *iavl.ImmutableTree
			if toks[1] == "w" {
				it = t.ImmutableTree
			} else {
				im, err := t.GetImmutable(atoi(toks[1][1:]))
				if err != nil {
					return "err"
				}
				it = im
			}
			h, n := int(it.Height()), it.Size()
			if toks[0] == "hbound" {
				// AVL bound h <= 1.4405 * log2(n + 2)
				if float64(h) <= 1.4405*math.Log2(float64(n)+2) {
					return "hb(ok)"
				}
				return fmt.Sprintf("hb(viol,h=%d,n=%d)", h, n)
			}
			if s.hooks == nil {
				return "ct(nowrap)"
			}
			var imm *iavl.ImmutableTree
			if toks[1] != "w" {
				imm = it
			}
			s.hooks.gets = 0
			res := s.execRead(imm, toks[2:])
			g := s.hooks.gets
			bound := 2*h + 2
			if toks[2] == "gproof" || toks[2] == "proof" {
				bound = 10*h + 10
			}
			if strings.HasPrefix(res, "err") && n == 0 {
				return "ct(ok)" // no proof on an empty tree
			}
			if strings.HasPrefix(res, "err") || strings.HasPrefix(res, "panic") {
				return "ct(readfailed)"
			}
			if g <= bound {
				return "ct(ok)"
			}
			return fmt.Sprintf("ct(viol,reads=%d,h=%d,bound=%d)", g, h, bound)
		case "expimp":
			return s.execExportImport(atoi(toks[1]), toks[2], atoi(toks[3]))
		case "audit":
			if toks[1] == "nodes" {
				return s.auditNodes(true)
			}
			if toks[1] == "phys" {
				return s.auditNodes(false)
			}
			if toks[1] == "raw" {
				return s.auditRaw()
			}
			if toks[1] == "cache" {
				return s.auditCache()
			}
			if toks[1] == "fastvals" { // label and values, without the entry versions
				return s.auditFast(false)
			}
			return s.auditFast(true)
		}
		return "badop"
	})
}
