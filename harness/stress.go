package main

import (
	"bytes"
	"errors"
	"flag"
	"fmt"
	"math/rand"
	"os"
	"sort"
	"sync"
	"sync/atomic"
	"time"

	"github.com/cosmos/iavl"
	dbm "github.com/cosmos/iavl/db"
	ics23 "github.com/cosmos/ics23/go"
)

// stress: C06 search engine. One writer (Set/Remove/SaveVersion/DeleteVersionsTo on versions nobody
// reads) and N readers of committed versions (Get, Has, GetWithIndex, Iterator, GetProof, Export).
// Every read is compared with the contents recorded at commit time. Built with -race, any data race
// aborts the run with exit status 66. With -latest the readers also read the version that is the
// published latest while the next commit is in flight (the recorded finding C06-commit-window).
func cmdStress(args []string) int {
	fs := flag.NewFlagSet("stress", flag.ExitOnError)
	seed := fs.Int64("seed", 1, "seed")
	rounds := fs.Int("rounds", 150, "commits")
	nreaders := fs.Int("readers", 4, "reader goroutines")
	cache := fs.Int("cache", 1000, "node cache size")
	fast := fs.Bool("fast", true, "fast index")
	async := fs.Bool("async", false, "async pruning")
	latest := fs.Bool("latest", false, "readers may read the published latest version during commits")
	backend := fs.String("backend", "memdb", "memdb|leveldb")
	npool := fs.Int("pool", 24, "number of distinct keys")
	_ = fs.Parse(args)

	var db interface {
		iavlDB
	}
	dir := ""
	if *backend == "leveldb" {
		d, _ := os.MkdirTemp("", "verif-stress-")
		dir = d
		l, err := dbm.NewGoLevelDB("t", d)
		if err != nil {
			fmt.Println("STRESS error", err)
			return 2
		}
		db = l
	} else {
		db = dbm.NewMemDB()
	}
	defer func() {
		if dir != "" {
			_ = os.RemoveAll(dir)
		}
	}()
	tree := iavl.NewMutableTree(db, *cache, !*fast, iavl.NewNopLogger(), iavl.AsyncPruningOption(*async))
	if _, err := tree.Load(); err != nil {
		fmt.Println("STRESS error", err)
		return 2
	}

	var mu sync.Mutex
	expected := map[int64]map[string]string{} // contents of every committed version
	reading := map[int64]int{}                // versions currently being read (not to be pruned)
	var latestV, firstV int64 = 0, 1
	var viol atomic.Value
	var reads, anomalies int64
	report := func(s string) {
		if viol.Load() == nil {
			viol.Store(s)
		}
	}
	stop := make(chan struct{})
	var wg sync.WaitGroup

	pool := make([][]byte, *npool)
	for i := range pool {
		pool[i] = []byte(fmt.Sprintf("k%03d", i))
	}

	reader := func(id int) {
		defer wg.Done()
		r := rand.New(rand.NewSource(*seed*100 + int64(id)))
		for {
			select {
			case <-stop:
				return
			default:
			}
			mu.Lock()
			lo, hi := firstV, latestV
			if !*latest {
				hi-- // never the published latest: the next commit may be in flight
			}
			if hi < lo {
				mu.Unlock()
				time.Sleep(time.Millisecond)
				continue
			}
			v := lo + r.Int63n(hi-lo+1)
			if r.Intn(3) == 0 {
				v = lo // the oldest retained version: its root may be shared with the versions being deleted
			}
			want := expected[v]
			reading[v]++
			isLatest := v == latestV
			mu.Unlock()
			func() {
				defer func() {
					mu.Lock()
					reading[v]--
					mu.Unlock()
				}()
				im, err := tree.GetImmutable(v)
				if err != nil {
					report(fmt.Sprintf("GetImmutable(%d): %v", v, err))
					return
				}
				bad := func(what string) {
					if isLatest {
						atomic.AddInt64(&anomalies, 1)
						return
					}
					report(fmt.Sprintf("version %d: %s", v, what))
				}
				for i := 0; i < 4; i++ {
					k := pool[r.Intn(len(pool))]
					w, present := want[string(k)]
					val, err := im.Get(k)
					if err != nil || (present && string(val) != w) || (!present && val != nil) {
						bad(fmt.Sprintf("Get(%s)=%q,%v want %q,%v", k, val, err, w, present))
					}
					has, err := im.Has(k)
					if err != nil || has != present {
						bad(fmt.Sprintf("Has(%s)=%v,%v", k, has, err))
					}
					_, val2, err := im.GetWithIndex(k)
					if err != nil || (present && string(val2) != w) || (!present && val2 != nil) {
						bad(fmt.Sprintf("GetWithIndex(%s)", k))
					}
					atomic.AddInt64(&reads, 3)
				}
				switch r.Intn(3) {
				case 0:
					it, err := im.Iterator(nil, nil, true)
					if err != nil {
						bad("Iterator: " + err.Error())
						break
					}
					n := 0
					ok := true
					for ; it.Valid(); it.Next() {
						if w, p := want[string(it.Key())]; !p || w != string(it.Value()) {
							ok = false
						}
						n++
					}
					if it.Error() != nil || !ok || n != len(want) {
						bad(fmt.Sprintf("Iterator delivered %d pairs, want %d (ok=%v)", n, len(want), ok))
					}
					it.Close()
				case 1:
					k := pool[r.Intn(len(pool))]
					p, err := im.GetProof(k)
					if len(want) == 0 {
						break
					}
					if err != nil {
						bad("GetProof: " + err.Error())
						break
					}
					root := im.Hash()
					if w, present := want[string(k)]; present {
						if p.GetExist() == nil || !ics23.VerifyMembership(ics23.IavlSpec, root, p, k, []byte(w)) {
							bad("membership proof does not verify")
						}
					} else if p.GetNonexist() == nil || !ics23.VerifyNonMembership(ics23.IavlSpec, root, p, k) {
						bad("non-membership proof does not verify")
					}
				case 2:
					ex, err := im.Export()
					if err != nil {
						bad("Export: " + err.Error())
						break
					}
					leaves := 0
					for {
						n, err := ex.Next()
						if errors.Is(err, iavl.ErrorExportDone) {
							break
						}
						if err != nil {
							bad("Export.Next: " + err.Error())
							break
						}
						if n.Height == 0 {
							leaves++
							if w, p := want[string(n.Key)]; !p || w != string(n.Value) {
								bad("export leaf differs")
							}
						}
					}
					ex.Close()
					if leaves != len(want) {
						bad(fmt.Sprintf("export delivered %d leaves, want %d", leaves, len(want)))
					}
				}
				atomic.AddInt64(&reads, 1)
			}()
		}
	}
	for i := 0; i < *nreaders; i++ {
		wg.Add(1)
		go reader(i)
	}

	// writer
	wr := rand.New(rand.NewSource(*seed))
	shadow := map[string]string{}
	pinViol := ""
	for round := 0; round < *rounds && viol.Load() == nil; round++ {
		nw := 1 + wr.Intn(6)
		if wr.Intn(4) == 0 {
			nw = 0 // a commit without writes: the new version refers to the previous root
		}
		for i := 0; i < nw; i++ {
			k := pool[wr.Intn(len(pool))]
			if wr.Intn(3) == 0 {
				_, _, _ = tree.Remove(k)
				delete(shadow, string(k))
			} else {
				val := fmt.Sprintf("v%d.%d", round, i)
				_, _ = tree.Set(k, []byte(val))
				shadow[string(k)] = val
			}
		}
		snap := make(map[string]string, len(shadow))
		for k, v := range shadow {
			snap[k] = v
		}
		mu.Lock()
		expected[latestV+1] = snap // recorded before it becomes visible
		mu.Unlock()
		_, v, err := tree.SaveVersion()
		if err != nil {
			report("SaveVersion: " + err.Error())
			break
		}
		mu.Lock()
		latestV = v
		mu.Unlock()
		// an open export pins its version
		if round%25 == 10 && v > 3 && !*async {
			p := v - 1
			im, err := tree.GetImmutable(p)
			if err == nil {
				ex, err := im.Export()
				if err == nil {
					if err := tree.DeleteVersionsTo(p); err == nil {
						pinViol = fmt.Sprintf("DeleteVersionsTo(%d) succeeded while an export of version %d was open", p, p)
					}
					// a rollback over the pinned version (it is the first one the rollback would delete)
					// must be refused as well; the failed call leaves the older version loaded
					if err := tree.LoadVersionForOverwriting(p - 1); err == nil {
						if pinViol == "" {
							pinViol = fmt.Sprintf("LoadVersionForOverwriting(%d) succeeded while an export of version %d was open", p-1, p)
						}
					} else if _, err := tree.LoadVersion(v); err != nil {
						report("LoadVersion after a refused rollback: " + err.Error())
					}
					// a second export of the same version, closed twice (allowed), must not release the first pin
					ex2, err2 := im.Export()
					if err2 == nil {
						ex2.Close()
						ex2.Close()
						if err := tree.DeleteVersionsTo(p); err == nil && pinViol == "" {
							pinViol = fmt.Sprintf("DeleteVersionsTo(%d) succeeded while one of two exports of version %d was still open", p, p)
						}
					}
					ex.Close()
				}
			}
		}
		// prune old versions nobody reads
		if round%7 == 6 {
			mu.Lock()
			n := latestV - 8
			for w := firstV; w <= n; w++ {
				if reading[w] > 0 {
					n = w - 1
					break
				}
			}
			canPrune := n >= firstV
			if canPrune {
				firstV = n + 1 // readers stop picking them before the deletion starts
			}
			mu.Unlock()
			if canPrune {
				// wait for readers that picked a version before firstV moved
				for {
					mu.Lock()
					busy := false
					for w, c := range reading {
						if w <= n && c > 0 {
							busy = true
						}
					}
					mu.Unlock()
					if !busy {
						break
					}
					time.Sleep(100 * time.Microsecond)
				}
				if err := tree.DeleteVersionsTo(n); err != nil {
					report(fmt.Sprintf("DeleteVersionsTo(%d): %v", n, err))
				}
			}
		}
	}
	close(stop)
	wg.Wait()
	_ = tree.Close()
	if pinViol != "" {
		report(pinViol)
	}
	if v := viol.Load(); v != nil {
		fmt.Printf("STRESS viol %s\n", v.(string))
		return 1
	}
	keys := make([]int, 0)
	for v := range expected {
		keys = append(keys, int(v))
	}
	sort.Ints(keys)
	fmt.Printf("STRESS ok commits=%d reads=%d latest_anomalies=%d\n", latestV, atomic.LoadInt64(&reads), atomic.LoadInt64(&anomalies))
	_ = bytes.Equal
	return 0
}

type iavlDB interface {
	Get(key []byte) ([]byte, error)
	Has(key []byte) (bool, error)
	Set(key, value []byte) error
	Delete(key []byte) error
	Iterator(start, end []byte) (coreIterator, error)
	ReverseIterator(start, end []byte) (coreIterator, error)
	Close() error
	NewBatch() coreBatch
	NewBatchWithSize(int) coreBatch
}

func init() { commands["stress"] = cmdStress }
