package main

import (
	"errors"
	"sync"
	"time"

	corestore "cosmossdk.io/core/store"
)

// wrapDB wraps a backend: it records physical writes (one entry per batch write or direct
// write), counts storage calls, and can fail the i-th storage call (fault injection).
type rawOp struct {
	del bool
	k   []byte
	v   []byte
}

type hooks struct {
	mu        sync.Mutex // the importer writes its batches from a background goroutine
	writes    [][]rawOp  // physical writes in order
	record    bool
	calls     int          // number of storage calls seen (Get, Has, iterator create/step, batch Set/Delete/Write, direct Set/Delete)
	failAt    map[int]bool // calls (1-based) that fail
	failed    int          // how many faults were actually injected
	gets      int          // point reads (Get/Has) — the C11 node read counter
	kinds     map[string]int
	seq       []string // when non-nil: the kind of every call, in order
	trace     bool
	failNth   map[string]int // kind -> ordinal (1-based) of the call of that kind that fails
	nth       map[string]int
	failKind  string        // kind of the last injected fault
	slowWrite time.Duration // delay of every unsynced batch Write (the importer issues those from a background goroutine)
}

var errInjected = errors.New("injected storage fault")

func (h *hooks) call(kind string) error {
	h.mu.Lock()
	defer h.mu.Unlock()
	h.calls++
	if h.kinds != nil {
		h.kinds[kind]++
	}
	if h.trace {
		h.seq = append(h.seq, kind)
	}
	if h.failNth != nil {
		if h.nth == nil {
			h.nth = map[string]int{}
		}
		h.nth[kind]++
		if n, ok := h.failNth[kind]; ok && n == h.nth[kind] {
			h.failed++
			h.failKind = kind
			return errInjected
		}
	}
	if h.failAt != nil && h.failAt[h.calls] {
		h.failed++
		h.failKind = kind
		return errInjected
	}
	return nil
}

type wrapDB struct {
	inner corestore.KVStoreWithBatch
	h     *hooks
}

func (w *wrapDB) Get(key []byte) ([]byte, error) {
	w.h.gets++
	if err := w.h.call("get"); err != nil {
		return nil, err
	}
	return w.inner.Get(key)
}

func (w *wrapDB) Has(key []byte) (bool, error) {
	w.h.gets++
	if err := w.h.call("has"); err != nil {
		return false, err
	}
	return w.inner.Has(key)
}

func (w *wrapDB) Set(key, value []byte) error {
	if err := w.h.call("set"); err != nil {
		return err
	}
	if w.h.record {
		w.h.writes = append(w.h.writes, []rawOp{{false, append([]byte{}, key...), append([]byte{}, value...)}})
	}
	return w.inner.Set(key, value)
}

func (w *wrapDB) Delete(key []byte) error {
	if err := w.h.call("delete"); err != nil {
		return err
	}
	if w.h.record {
		w.h.writes = append(w.h.writes, []rawOp{{true, append([]byte{}, key...), nil}})
	}
	return w.inner.Delete(key)
}

func (w *wrapDB) Iterator(start, end []byte) (corestore.Iterator, error) {
	if err := w.h.call("iter"); err != nil {
		return nil, err
	}
	it, err := w.inner.Iterator(start, end)
	if err != nil {
		return nil, err
	}
	return &wrapIter{it, w.h, nil}, nil
}

func (w *wrapDB) ReverseIterator(start, end []byte) (corestore.Iterator, error) {
	if err := w.h.call("riter"); err != nil {
		return nil, err
	}
	it, err := w.inner.ReverseIterator(start, end)
	if err != nil {
		return nil, err
	}
	return &wrapIter{it, w.h, nil}, nil
}

func (w *wrapDB) Close() error { return nil }

func (w *wrapDB) NewBatch() corestore.Batch {
	return &wrapBatch{inner: w.inner.NewBatch(), h: w.h}
}

func (w *wrapDB) NewBatchWithSize(n int) corestore.Batch {
	return &wrapBatch{inner: w.inner.NewBatchWithSize(n), h: w.h}
}

// an iterator whose step can fail: after an injected fault it becomes invalid and reports the error
type wrapIter struct {
	corestore.Iterator
	h   *hooks
	err error
}

func (i *wrapIter) Valid() bool {
	if i.err != nil {
		return false
	}
	return i.Iterator.Valid()
}

func (i *wrapIter) Next() {
	if i.err != nil {
		return
	}
	if err := i.h.call("next"); err != nil {
		i.err = err
		return
	}
	i.Iterator.Next()
}

func (i *wrapIter) Error() error {
	if i.err != nil {
		return i.err
	}
	return i.Iterator.Error()
}

type wrapBatch struct {
	inner corestore.Batch
	h     *hooks
	ops   []rawOp
}

func (b *wrapBatch) Set(key, value []byte) error {
	if err := b.h.call("bset"); err != nil {
		return err
	}
	if err := b.inner.Set(key, value); err != nil {
		return err
	}
	if b.h.record {
		b.ops = append(b.ops, rawOp{false, append([]byte{}, key...), append([]byte{}, value...)})
	}
	return nil
}

func (b *wrapBatch) Delete(key []byte) error {
	if err := b.h.call("bdelete"); err != nil {
		return err
	}
	if err := b.inner.Delete(key); err != nil {
		return err
	}
	if b.h.record {
		b.ops = append(b.ops, rawOp{true, append([]byte{}, key...), nil})
	}
	return nil
}

func (b *wrapBatch) flush() {
	b.h.mu.Lock()
	if b.h.record && len(b.ops) > 0 {
		b.h.writes = append(b.h.writes, b.ops)
	}
	b.h.mu.Unlock()
	b.ops = nil
}

func (b *wrapBatch) Write() error {
	if err := b.h.call("bwrite"); err != nil {
		return err
	}
	if b.h.slowWrite > 0 {
		time.Sleep(b.h.slowWrite)
	}
	if err := b.inner.Write(); err != nil {
		return err
	}
	b.flush()
	return nil
}

func (b *wrapBatch) WriteSync() error {
	if err := b.h.call("bwrite"); err != nil {
		return err
	}
	if err := b.inner.WriteSync(); err != nil {
		return err
	}
	b.flush()
	return nil
}

func (b *wrapBatch) Close() error              { return b.inner.Close() }
func (b *wrapBatch) GetByteSize() (int, error) { return b.inner.GetByteSize() }
