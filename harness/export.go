package main

import (
	"encoding/hex"
	"errors"
	"fmt"
	"strings"

	"github.com/cosmos/iavl"
)

func exportAll(imm *iavl.ImmutableTree) ([]*iavl.ExportNode, error) {
	ex, err := imm.Export()
	if err != nil {
		return nil, err
	}
	defer ex.Close()
	var nodes []*iavl.ExportNode
	for {
		n, err := ex.Next()
		if errors.Is(err, iavl.ErrorExportDone) {
			return nodes, nil
		}
		if err != nil {
			return nil, err
		}
		nodes = append(nodes, n)
		if len(nodes) > 1000000 {
			return nil, errors.New("runaway export")
		}
	}
}

func exString(nodes []*iavl.ExportNode) string {
	parts := make([]string, len(nodes))
	for i, n := range nodes {
		v := "-"
		if n.Value != nil {
			v = hex.EncodeToString(n.Value)
			if len(n.Value) == 0 {
				v = "."
			}
		}
		parts[i] = fmt.Sprintf("%s:%s:%d:%d", hex.EncodeToString(n.Key), v, n.Version, n.Height)
	}
	return "ex[" + strings.Join(parts, ";") + "]"
}
