package main

import (
	"bytes"
	"crypto/sha1"
	"encoding/hex"
	"fmt"
	"os"
	"sort"
	"strings"
	"time"

	corestore "cosmossdk.io/core/store"
	"github.com/cosmos/iavl"
	dbm "github.com/cosmos/iavl/db"
)

// snapshotDB copies the tree's database view.
func snapshotDB(db corestore.KVStoreWithBatch) map[string][]byte {
	out := map[string][]byte{}
	it, err := db.Iterator(nil, nil)
	if err != nil {
		return out
	}
	defer it.Close()
	for ; it.Valid(); it.Next() {
		out[string(it.Key())] = append([]byte{}, it.Value()...)
	}
	return out
}

func imageDB(snap map[string][]byte, writes [][]rawOp) *dbm.MemDB {
	db := dbm.NewMemDB()
	for k, v := range snap {
		_ = db.Set([]byte(k), v)
	}
	for _, w := range writes {
		for _, op := range w {
			if op.del {
				_ = db.Delete(op.k)
			} else {
				_ = db.Set(op.k, op.v)
			}
		}
	}
	return db
}

// openOn opens a fresh MutableTree on db with this system's configuration.
func (s *Sys) openOn(db corestore.KVStoreWithBatch, fast bool) (*iavl.MutableTree, error) {
	t := iavl.NewMutableTree(db, s.cfg.Cache, !fast, iavl.NewNopLogger(), s.options()...)
	_, err := t.Load()
	return t, err
}

// treeDump is everything a user can observe of a freshly opened tree.
type treeDump struct {
	avail   []int
	walk    map[int]string    // per version: hash + tree-walk contents
	served  map[int]string    // per version: contents through Iterator / Get (index-served where enabled)
	working string            // working tree through the tree walk
	wserved string            // working tree through Iterator
	wgets   map[string]string // working tree Get per key of any listed version
	vkeys   map[int][]string  // keys of each listed version
}

// working-tree point reads for the keys of the versions accepted by keep
func (d treeDump) wgetsFor(keep func(v int) bool) string {
	seen := map[string]bool{}
	var ks []string
	for _, v := range d.avail {
		if keep(v) {
			for _, k := range d.vkeys[v] {
				if !seen[k] {
					seen[k] = true
					ks = append(ks, k)
				}
			}
		}
	}
	sort.Strings(ks)
	var sb strings.Builder
	for _, k := range ks {
		fmt.Fprintf(&sb, ";wget:%x=%s", k, d.wgets[k])
	}
	return sb.String()
}

func (d treeDump) String() string {
	var sb strings.Builder
	fmt.Fprintf(&sb, "avail=%v;", d.avail)
	for _, v := range d.avail {
		fmt.Fprintf(&sb, "v%d=%s|%s;", v, d.walk[v], d.served[v])
	}
	fmt.Fprintf(&sb, "w=%s|%s%s", d.working, d.wserved, d.wgetsFor(func(int) bool { return true }))
	return sb.String()
}

// walkOnly drops the index-served projections.
func (d treeDump) walkOnly() string {
	var sb strings.Builder
	fmt.Fprintf(&sb, "avail=%v;", d.avail)
	for _, v := range d.avail {
		fmt.Fprintf(&sb, "v%d=%s;", v, d.walk[v])
	}
	fmt.Fprintf(&sb, "w=%s", d.working)
	return sb.String()
}

// above renders only the versions > n (those a deletion up to n must keep) and the working tree.
func (d treeDump) above(n int) string {
	var sb strings.Builder
	for _, v := range d.avail {
		if v > n {
			fmt.Fprintf(&sb, "v%d=%s|%s;", v, d.walk[v], d.served[v])
		}
	}
	fmt.Fprintf(&sb, "w=%s|%s%s", d.working, d.wserved, d.wgetsFor(func(v int) bool { return v > n }))
	return sb.String()
}

func dumpTree(t *iavl.MutableTree) treeDump {
	d := treeDump{walk: map[int]string{}, served: map[int]string{}, wgets: map[string]string{}, vkeys: map[int][]string{}}
	d.avail = t.AvailableVersions()
	keys := map[string]bool{}
	for _, v := range d.avail {
		im, err := t.GetImmutable(int64(v))
		if err != nil {
			d.walk[v] = "ERR"
			continue
		}
		var walk []kv
		stoppedEarly := im.IterateRange(nil, nil, true, func(k, val []byte) bool {
			walk = append(walk, kv{append([]byte{}, k...), append([]byte{}, val...)})
			keys[string(k)] = true
			d.vkeys[v] = append(d.vkeys[v], string(k))
			return false
		})
		_ = stoppedEarly
		// a tree walk that hits a missing node ends silently: cross-check with the size
		sz := ""
		if int64(len(walk)) != im.Size() {
			sz = fmt.Sprintf("SHORT(%d/%d)", len(walk), im.Size())
		}
		d.walk[v] = fmt.Sprintf("%x:%s%s", im.Hash(), rKvs(walk), sz)
		var sb strings.Builder
		sb.WriteString(collectIter(im.Iterator(nil, nil, true)))
		for _, p := range walk {
			val, err := im.Get(p.k)
			if err != nil {
				fmt.Fprintf(&sb, ";get:%x=ERR", p.k)
			} else {
				fmt.Fprintf(&sb, ";get:%x=%x", p.k, val)
			}
		}
		d.served[v] = sb.String()
	}
	var walk []kv
	t.IterateRange(nil, nil, true, func(k, val []byte) bool {
		walk = append(walk, kv{append([]byte{}, k...), append([]byte{}, val...)})
		return false
	})
	sz := ""
	if int64(len(walk)) != t.Size() {
		sz = fmt.Sprintf("SHORT(%d/%d)", len(walk), t.Size())
	}
	d.working = fmt.Sprintf("%s%s:%x", rKvs(walk), sz, t.WorkingHash())
	var sb strings.Builder
	sb.WriteString(collectIter(t.Iterator(nil, nil, true)))
	ks := make([]string, 0, len(keys))
	for k := range keys {
		ks = append(ks, k)
	}
	sort.Strings(ks)
	for _, k := range ks {
		val, err := t.Get([]byte(k))
		if err != nil {
			d.wgets[k] = "ERR"
		} else {
			d.wgets[k] = fmt.Sprintf("%x", val)
		}
	}
	d.wserved = sb.String()
	return d
}

func digest(s string) string {
	h := sha1.Sum([]byte(s))
	return hex.EncodeToString(h[:6])
}

// execCrash explores every crash point of one operation. The operation is executed for real
// (crash-free) on the live tree; its physical writes are recorded; every prefix of them is turned
// into a database image that is reopened, observed, and on which the operation is retried.
// Result: "cr(ok,n=<writes>);<result of the operation>" or "cr(viol,op=..,i=k/n,kind=..);<result>".
// execCrashBigImport: "crash bigimport <leaves>". A scratch tree with that many leaves (not part of
// the modelled history) is exported and imported into an empty database below the recording
// wrapper; the unsynced batch writes - which the importer issues from a background goroutine -
// are slowed down, so that the ORDER in which the physical batches reach the database is the one
// the importer enforces, not the one a fast backend happens to produce. Every prefix of the
// recorded batches is then opened: the database must be empty, or hold the imported version
// complete (hash, size, full walk); nodes without a root make Load() fail (kind loaderr, the
// recorded mechanism of an import cut before its root); a VISIBLE version with nodes missing is
// kind mixture.
func execCrashBigImport(leaves int) string {
	src := dbm.NewMemDB()
	t := iavl.NewMutableTree(src, 0, true, iavl.NewNopLogger())
	for i := 0; i < leaves; i++ {
		if _, err := t.Set([]byte(fmt.Sprintf("key%07d", i*7919%10000019)), []byte(fmt.Sprint(i))); err != nil {
			return "cr(skip);ok"
		}
	}
	if _, _, err := t.SaveVersion(); err != nil {
		return "cr(skip);ok"
	}
	imm, err := t.GetImmutable(1)
	if err != nil {
		return "cr(skip);ok"
	}
	nodes, err := exportAll(imm)
	if err != nil {
		return "cr(skip);ok"
	}
	wantHash, wantSize := imm.Hash(), imm.Size()
	h := &hooks{record: true, slowWrite: 300 * time.Millisecond}
	db := dbm.NewMemDB()
	it := iavl.NewMutableTree(&wrapDB{inner: db, h: h}, 0, true, iavl.NewNopLogger())
	done := make(chan error, 1)
	go func() {
		imp, err := it.Import(1)
		if err != nil {
			done <- err
			return
		}
		defer imp.Close()
		for _, n := range nodes {
			if err := imp.Add(n); err != nil {
				done <- err
				return
			}
		}
		done <- imp.Commit()
	}()
	select {
	case err := <-done:
		if err != nil {
			return "cr(viol,op=bigimport,i=0/0,kind=importerr);ok"
		}
	case <-time.After(120 * time.Second):
		return "cr(viol,op=bigimport,i=0/0,kind=hang);ok"
	}
	time.Sleep(2 * h.slowWrite) // a background write still in flight after Commit returned would show as a missing batch
	h.mu.Lock()
	writes := append([][]rawOp{}, h.writes...)
	h.mu.Unlock()
	kinds := map[string]bool{}
	first := ""
	for i := 0; i <= len(writes); i++ {
		img := imageDB(nil, writes[:i])
		t2 := iavl.NewMutableTree(img, 0, true, iavl.NewNopLogger())
		lv, lerr := t2.Load()
		kind := ""
		switch {
		case lerr != nil:
			kind = "loaderr"
		case lv == 0 && len(t2.AvailableVersions()) == 0:
		case lv == 1:
			cnt := int64(0)
			im2, e2 := t2.GetImmutable(1)
			if e2 != nil {
				kind = "mixture"
			} else {
				im2.IterateRange(nil, nil, true, func(_, _ []byte) bool { cnt++; return false })
				if cnt != wantSize || !bytes.Equal(im2.Hash(), wantHash) {
					kind = "mixture"
				}
			}
		default:
			kind = "mixture"
		}
		_ = t2.Close()
		if kind != "" && !kinds[kind] {
			kinds[kind] = true
			if first == "" {
				first = fmt.Sprintf("%d/%d", i, len(writes))
			}
		}
	}
	if len(kinds) == 0 {
		return fmt.Sprintf("cr(ok,n=%d,batches=%d);ok", len(writes)+1, len(writes))
	}
	var ks []string
	for k := range kinds {
		ks = append(ks, k)
	}
	sort.Strings(ks)
	return fmt.Sprintf("cr(viol,op=bigimport,i=%s,kind=%s);ok", first, strings.Join(ks, "+"))
}

func (s *Sys) execCrash(op []string) string {
	if op[0] == "bigimport" {
		return execCrashBigImport(int(atoi(op[1])))
	}
	if s.hooks == nil {
		return "cr(nowrap);" + s.Exec(op)
	}
	pre := snapshotDB(s.db)
	pending := append([][]string{}, s.pending...)
	s.hooks.writes = nil
	s.hooks.record = true
	res := s.Exec(op)
	s.hooks.record = false
	writes := s.hooks.writes
	s.hooks.writes = nil
	n := len(writes)
	if strings.HasPrefix(res, "err") || strings.HasPrefix(res, "panic") {
		return "cr(skip,n=" + fmt.Sprint(n) + ");" + res
	}
	fast := s.fastNow
	dumpOf := func(i int) (treeDump, error) {
		db := imageDB(pre, writes[:i])
		t, err := s.openOn(db, fast)
		if err != nil {
			return treeDump{}, err
		}
		defer t.Close()
		return dumpTree(t), nil
	}
	// the reference images are opened exactly like the crash images
	oldT, _ := dumpOf(0)
	newT, errN := dumpOf(n)
	if errN != nil {
		return fmt.Sprintf("cr(viol,op=%s,i=%d/%d,kind=postloaderr);%s", op[0], n, n, res)
	}
	oldD, newD := oldT.String(), newT.String()
	pruneTo := -1
	if op[0] == "prune" {
		pruneTo = int(atoi(op[1]))
	}
	// every prefix is explored even after a symptom was seen: the result names every kind of
	// symptom (in order of first occurrence) and the first position
	var kinds []string
	firstAt := 0
	note := func(kind string, i int) {
		for _, k := range kinds {
			if k == kind {
				return
			}
		}
		if len(kinds) == 0 {
			firstAt = i
		}
		kinds = append(kinds, kind)
	}
	for i := 1; i < n; i++ {
		dT, err := dumpOf(i)
		if err != nil {
			note("loaderr", i)
			continue
		}
		d := dT.String()
		isOld, isNew := d == oldD, d == newD
		if pruneTo >= 0 && !isOld && !isNew {
			// a deletion of several versions proceeds version by version: an intermediate image may
			// already lack some of the versions being deleted. What must hold: the versions it is
			// not deleting are intact, and what is still listed is readable.
			// (The versions being deleted may already be partly gone: the property only speaks
			// about the versions the operation is not deleting.)
			if dT.above(pruneTo) == newT.above(pruneTo) {
				isOld = true // treated as "not yet done": the retry must complete it
			}
		}
		if !isOld && !isNew {
			kind := "mixture"
			if dT.walkOnly() == oldT.walkOnly() {
				kind = "indexahead" // the tree is still the old one, only index-served reads differ
				// the recorded finding is an index whose entries are ahead while its label still
				// names the (old) latest version; an index labelled with ANOTHER version must
				// have been rebuilt by the open, so serving it is a different symptom
				lbl, _ := imageDB(pre, writes[:i]).Get([]byte("mstorage_version"))
				latest := 0
				if len(dT.avail) > 0 {
					latest = dT.avail[len(dT.avail)-1]
				}
				if string(lbl) != fmt.Sprintf("1.1.0-%d", latest) {
					kind = "indexstale"
				}
			}
			if os.Getenv("VERIF_DEBUG") != "" {
				fmt.Fprintf(os.Stderr, "DEBUG crash %s at %d/%d\nOLD %s\nNEW %s\nGOT %s\nWRITES:", kind, i, n, oldD, newD, d)
				for j, w := range writes {
					fmt.Fprintf(os.Stderr, "\n [%d]", j)
					for _, o := range w {
						fmt.Fprintf(os.Stderr, " %v:%x", o.del, o.k)
					}
				}
				fmt.Fprintln(os.Stderr)
			}
			note(kind, i)
			continue
		}
		// retry the interrupted operation on the image
		db := imageDB(pre, writes[:i])
		t, err := s.openOn(db, fast)
		if err != nil {
			note("loaderr2", i)
			continue
		}
		retry := &Sys{cfg: s.cfg, db: db, base: db, tree: t, fastNow: fast}
		ok := true
		if !isNew {
			for _, p := range pending {
				r := retry.Exec(p)
				if strings.HasPrefix(r, "err") || strings.HasPrefix(r, "panic") {
					ok = false
				}
			}
			r := retry.Exec(op)
			if strings.HasPrefix(r, "err") || strings.HasPrefix(r, "panic") {
				ok = false
			}
		}
		_ = retry.tree.Close()
		if !ok {
			note("retryfail", i)
			continue
		}
		t2, err := s.openOn(db, fast)
		if err != nil {
			note("retryloaderr", i)
			continue
		}
		d2 := dumpTree(t2).String()
		_ = t2.Close()
		if d2 != newD {
			if os.Getenv("VERIF_DEBUG") != "" {
				fmt.Fprintf(os.Stderr, "DEBUG retrydiffers at %d/%d\nNEWFULL %s\nGOTFULL %s\nWRITES:", i, n, newD, d2)
				for j, w := range writes {
					fmt.Fprintf(os.Stderr, "\n [%d]", j)
					for _, o := range w {
						fmt.Fprintf(os.Stderr, " %v:%x", o.del, o.k)
					}
				}
				fmt.Fprintln(os.Stderr)
			}
			note("retrydiffers", i)
			continue
		}
	}
	if len(kinds) > 0 {
		return fmt.Sprintf("cr(viol,op=%s,i=%d/%d,kind=%s);%s", op[0], firstAt, n, strings.Join(kinds, "+"), res)
	}
	return fmt.Sprintf("cr(ok,n=%d);%s", n, res)
}
