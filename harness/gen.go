package main

import (
	"fmt"
	"math/rand"
	"strconv"
	"strings"
)

// Case is one generated history for one machine kind.
type Case struct {
	ID     string
	Kind   string
	Params []string // machine parameters (model-visible), e.g. iv=7
	Cfgs   []string // configurations (model-invisible)
	Ops    [][]string
}

// The key alphabet: adjacent, prefix-related, 1-byte, long, high bytes.
var alphabet = [][]byte{
	[]byte("a"), {0x61, 0x00}, []byte("aa"), []byte("ab"), []byte("b"), []byte("ba"), []byte("c"),
	[]byte("m"), []byte("mm"), []byte("z"), {0xff}, {0xff, 0xff}, {0x00}, {0x01},
}

func longKey() []byte {
	b := make([]byte, 200)
	for i := range b {
		b[i] = byte('k' + i%3)
	}
	return b
}

type keyGen struct {
	r    *rand.Rand
	pool [][]byte
}

func newKeyGen(r *rand.Rand, n int) *keyGen {
	g := &keyGen{r: r}
	// a per-case pool: part alphabet, part random, so that repeats are frequent
	perm := r.Perm(len(alphabet))
	// about two thirds of a pool come from the alphabet, the rest is generated
	na := n - n/3
	for i := 0; i < na && i < len(perm); i++ {
		g.pool = append(g.pool, alphabet[perm[i]])
	}
	if n >= 6 && r.Intn(5) == 0 {
		// a family of sort-adjacent keys sharing a long prefix whose length sits at a varint
		// boundary (the delta encoding of the compressed export stores that length as a uvarint)
		pl := []int{126, 127, 128, 129, 130, 255, 256, 300}[r.Intn(8)]
		if r.Intn(12) == 0 {
			pl = []int{16383, 16384, 16385}[r.Intn(3)]
		}
		pre := make([]byte, pl)
		r.Read(pre)
		for i, m := 0, 2+r.Intn(3); i < m && len(g.pool) < n; i++ {
			suf := make([]byte, 1+r.Intn(3))
			r.Read(suf)
			g.pool = append(g.pool, append(append([]byte{}, pre...), suf...))
		}
	}
	for len(g.pool) < n {
		switch r.Intn(10) {
		case 0:
			if r.Intn(2) == 0 {
				b := make([]byte, []int{127, 128, 129}[r.Intn(3)])
				r.Read(b)
				g.pool = append(g.pool, b)
			} else {
				g.pool = append(g.pool, longKey())
			}
		case 1, 2: // extension of an existing key
			b := g.pool[r.Intn(len(g.pool))]
			g.pool = append(g.pool, append(append([]byte{}, b...), byte(r.Intn(3))))
		default:
			l := 1 + r.Intn(4)
			b := make([]byte, l)
			for i := range b {
				b[i] = byte(r.Intn(256))
			}
			g.pool = append(g.pool, b)
		}
	}
	// the empty (non-nil) key is a valid key (node.validate accepts it)
	return g
}

// withEmptyKey puts the empty (non-nil) key into the pool: it is a valid key (node.validate accepts it)
func (g *keyGen) withEmptyKey() { g.pool[g.r.Intn(len(g.pool))] = []byte{} }

func (g *keyGen) key() []byte { return g.pool[g.r.Intn(len(g.pool))] }

// a key that is probably not in the pool: neighbour / prefix / extension of a pool key
func (g *keyGen) probe() []byte {
	b := append([]byte{}, g.key()...)
	if len(b) == 0 {
		return []byte{byte(g.r.Intn(2))}
	}
	switch g.r.Intn(5) {
	case 0:
		return append(b, 0)
	case 1:
		if len(b) > 1 {
			return b[:len(b)-1]
		}
		return b
	case 2:
		b[len(b)-1]++
		return b
	case 3:
		b[len(b)-1]--
		return b
	}
	return b
}

func (g *keyGen) value() []byte {
	if g.r.Intn(12) == 0 { // lengths around the one-byte / two-byte length prefix boundary
		b := make([]byte, []int{127, 128, 128, 129, 255, 256}[g.r.Intn(6)])
		g.r.Read(b)
		return b
	}
	switch g.r.Intn(8) {
	case 0:
		return []byte{}
	case 1:
		return []byte("same")
	case 2:
		b := make([]byte, 40+g.r.Intn(60))
		g.r.Read(b)
		return b
	}
	return []byte(strconv.Itoa(g.r.Intn(1000)))
}

// Profile: weights of the history grammar.
type Profile struct {
	Name       string
	MinOps     int
	MaxOps     int
	Keys       int // key pool size
	W          map[string]int
	EmptyVals  bool
	NoEmptyKey bool // ICS-23 cannot prove the empty key (C03-empty-key): the main C03 stream stays clear of it
	ObsEvery   int  // full observation burst after every n-th mutation (0 = only at the end)
	Initials   []int64
	Order      string // "" random | asc | desc | alt : insertion order for balance profiles
	ReadsW     int    // weight of single random reads
	NoLvfo     bool
	WPrune     bool // deletions are recorded (wprune): physical writes and flush positions
	ToggleFast bool // every reopen independently chooses fast index on/off
	Touch      bool // sprinkle read-only calls that may memoise (proofs, hashes)
}

// tracked approximation of the history, to generate mostly-valid operations
type track struct {
	versions []int64 // retained
	cur      int64   // version the working tree is based on
	dirty    bool
	iv       int64
}

func (t *track) latest() int64 {
	if len(t.versions) == 0 {
		return 0
	}
	return t.versions[len(t.versions)-1]
}
func (t *track) first() int64 {
	if len(t.versions) == 0 {
		return 0
	}
	return t.versions[0]
}
func (t *track) has(v int64) bool {
	for _, w := range t.versions {
		if w == v {
			return true
		}
	}
	return false
}

func pickWeighted(r *rand.Rand, w map[string]int) string {
	total := 0
	ks := sortedKeys(w)
	for _, k := range ks {
		total += w[k]
	}
	x := r.Intn(total)
	for _, k := range ks {
		if x < w[k] {
			return k
		}
		x -= w[k]
	}
	return ks[0]
}

func i64(v int64) string { return strconv.FormatInt(v, 10) }

func optTok(r *rand.Rand, g *keyGen) string {
	switch r.Intn(6) {
	case 0:
		return "-"
	case 1:
		return "."
	case 2:
		return hx(g.probe())
	}
	return hx(g.key())
}

// readsOn emits a burst of reads addressed to target ("w" or "v<n>").
func readsOn(r *rand.Rand, g *keyGen, target string, full bool, ops *[][]string) {
	add := func(t ...string) { *ops = append(*ops, append([]string{"r", target}, t...)) }
	add("size")
	add("height")
	add("hash")
	add("iter", "-", "-", "0", "1")
	n := 3
	if full {
		n = len(g.pool)
	}
	for i := 0; i < n; i++ {
		var k []byte
		if full {
			k = g.pool[i]
		} else {
			k = g.key()
		}
		add("get", hx(k))
		add("has", hx(k))
		add("gwi", hx(k))
	}
	for i := 0; i < 2; i++ {
		p := g.probe()
		add("get", hx(p))
		add("has", hx(p))
		add("gwi", hx(p))
	}
	add("gbi", i64(int64(r.Intn(len(g.pool)+2))-1))
	add("gbi", "0")
	asc := strconv.Itoa(r.Intn(2))
	incl := strconv.Itoa(r.Intn(2))
	add("iter", optTok(r, g), optTok(r, g), incl, asc)
	add("iterr", optTok(r, g), optTok(r, g), "0", strconv.Itoa(r.Intn(2)))
	add("iterate")
	// a callback that asks to stop: after the first element, in the middle, beyond the end
	for _, api := range []string{"it", "ir", "ii"} {
		if r.Intn(2) == 0 {
			add("istop", api, optTok(r, g), optTok(r, g), strconv.Itoa(r.Intn(2)), strconv.Itoa(1+r.Intn(4)))
		}
	}
}

func bookkeeping(r *rand.Rand, g *keyGen, t *track, ops *[][]string) {
	*ops = append(*ops, []string{"avail"}, []string{"latest"}, []string{"wver"}, []string{"hash"})
	if r.Intn(3) == 0 {
		*ops = append(*ops, []string{"davail"})
	}
	if r.Intn(3) == 0 {
		*ops = append(*ops, []string{"isempty"}, []string{"fastflags"})
	}
	if r.Intn(4) == 0 {
		*ops = append(*ops, []string{"dbstring"})
	}
	hi := t.latest() + 1
	lo := t.first() - 1
	if lo < 0 {
		lo = 0
	}
	if hi-lo > 12 {
		lo = hi - 12
	}
	for v := lo; v <= hi; v++ {
		*ops = append(*ops, []string{"vexists", i64(v)})
	}
	*ops = append(*ops, []string{"getv", hx(g.key()), i64(lo + r.Int63n(hi-lo+1))})
}

func obs(r *rand.Rand, g *keyGen, t *track, full bool, ops *[][]string) {
	readsOn(r, g, "w", full, ops)
	// versions: all when few, else a sample incl. first and latest
	vs := t.versions
	if len(vs) > 4 && !full {
		vs = []int64{t.first(), t.versions[r.Intn(len(t.versions))], t.latest()}
	}
	for _, v := range vs {
		readsOn(r, g, "v"+i64(v), full, ops)
	}
	// one absent version
	*ops = append(*ops, []string{"r", "v" + i64(t.latest()+1), "size"})
	if t.first() > 1 {
		*ops = append(*ops, []string{"r", "v" + i64(t.first()-1), "size"})
	}
	bookkeeping(r, g, t, ops)
	*ops = append(*ops, []string{"audit", "nodes"}, []string{"audit", "phys"}, []string{"audit", "fast"}, []string{"audit", "raw"}, []string{"audit", "cache"})
}

// genM1 generates one MutableTree history.
func genM1(r *rand.Rand, p Profile, id string) Case {
	g := newKeyGen(r, p.Keys)
	// one case in ten has the empty key in its pool (NoEmptyKey: the profile keeps clear of it)
	if !p.NoEmptyKey && r.Intn(10) == 0 {
		g.withEmptyKey()
	}
	iv := int64(-1)
	if len(p.Initials) > 0 {
		iv = p.Initials[r.Intn(len(p.Initials))]
		if r.Intn(6) == 0 {
			// versions that cross an encoding boundary within a few commits: one/two byte zigzag
			// varints (hash preimages, proof prefixes) at 63|64 and 8191|8192, uvarints at 127|128
			// and 16383|16384, 32-bit limits
			iv = []int64{62, 63, 64, 126, 127, 128, 8190, 8191, 8192, 16382, 16383, 16384,
				1<<31 - 2, 1<<31 - 1, 1 << 31, 1<<32 - 2, 1<<32 - 1, 1 << 32}[r.Intn(18)]
			if (p.W["expimp"] > 0 || p.W["faultimport"] > 0) && iv > 1<<20 {
				// the importer allocates a table indexed by the version number (the import version
				// is the caller's trusted parameter): keep imported versions small
				iv = 16383
			}
		}
	}
	c := Case{ID: id, Kind: "m1"}
	if iv >= 0 {
		c.Params = []string{"iv=" + i64(iv)}
	} else {
		c.Params = []string{"iv=-"}
	}
	t := &track{iv: iv}
	pruneTok := "prune"
	if p.WPrune {
		pruneTok = "wprune"
	}
	nops := p.MinOps + r.Intn(p.MaxOps-p.MinOps+1)
	var ops [][]string
	muts := 0
	seq := 0
	if p.W["rollback"] > 0 && p.W["save"] > 0 && p.Order == "" && len(g.pool) >= 3 && r.Intn(8) == 0 {
		// scripted opening: a tiny committed tree; one removal alone in the working version (the
		// sibling - a saved node - becomes the working root) is discarded, then committed
		commit := func() {
			ops = append(ops, []string{"save"})
			nv := t.cur + 1
			if t.cur == 0 && iv > 0 {
				nv = iv
			}
			if !t.has(nv) {
				t.versions = append(t.versions, nv)
				t.cur = nv
			}
			t.dirty = false
		}
		perm := r.Perm(len(g.pool))
		nk := 2 + r.Intn(2)
		for i := 0; i < nk; i++ {
			ops = append(ops, []string{"set", hx(g.pool[perm[i]]), hx([]byte(strconv.Itoa(i + 1)))})
		}
		commit()
		victim := hx(g.pool[perm[r.Intn(nk)]])
		ops = append(ops, []string{"rm", victim})
		readsOn(r, g, "w", false, &ops)
		ops = append(ops, []string{"rollback"})
		readsOn(r, g, "w", false, &ops)
		if r.Intn(2) == 0 {
			ops = append(ops, []string{"rm", victim})
			commit()
			obs(r, g, t, false, &ops)
		}
	}
	for len(ops) < nops*8 && muts < nops {
		k := pickWeighted(r, p.W)
		switch k {
		case "set":
			var key []byte
			switch p.Order {
			case "asc":
				key = []byte(fmt.Sprintf("k%05d", seq))
			case "desc":
				key = []byte(fmt.Sprintf("k%05d", 99999-seq))
			case "alt":
				if seq%2 == 0 {
					key = []byte(fmt.Sprintf("k%05d", seq))
				} else {
					key = []byte(fmt.Sprintf("k%05d", 99999-seq))
				}
			default:
				key = g.key()
			}
			seq++
			v := g.value()
			if len(v) == 0 && !p.EmptyVals {
				v = []byte("e")
			}
			ops = append(ops, []string{"set", hx(key), hx(v)})
			t.dirty = true
		case "setnil":
			ops = append(ops, []string{"setnil", hx(g.key())})
		case "rm":
			key := g.key()
			if p.Order != "" && seq > 0 {
				key = []byte(fmt.Sprintf("k%05d", r.Intn(seq)))
			}
			ops = append(ops, []string{"rm", hx(key)})
			t.dirty = true
		case "save":
			ops = append(ops, []string{"save"})
			nv := t.cur + 1
			if t.cur == 0 && iv > 0 {
				nv = iv
			}
			if !t.has(nv) {
				t.versions = append(t.versions, nv)
				t.cur = nv
			}
			// if nv exists the save is an overwrite attempt: outcome depends on hashes; the
			// tracker stays approximate (cur unchanged on error, = nv on success)
			t.dirty = false
		case "rollback":
			ops = append(ops, []string{"rollback"})
			t.dirty = false
		case "reopen":
			if p.ToggleFast {
				ops = append(ops, []string{"reopen", fmt.Sprintf("fast=%v", r.Intn(2) == 0)})
			} else {
				ops = append(ops, []string{"reopen"})
			}
			t.cur = t.latest()
			t.dirty = false
		case "load":
			if len(t.versions) == 0 {
				continue
			}
			v := t.versions[r.Intn(len(t.versions))]
			if r.Intn(6) == 0 {
				v = t.latest() + 1 + int64(r.Intn(2)) // out of range
			} else if r.Intn(8) == 0 {
				v = 0
			}
			ops = append(ops, []string{"load", i64(v)})
			if t.has(v) {
				t.cur = v
			} else if v == 0 {
				t.cur = t.latest()
			}
			t.dirty = false
		case "prune":
			if len(t.versions) < 2 {
				continue
			}
			// keep the version the working tree is based on
			var n int64
			switch r.Intn(6) {
			case 0:
				n = t.latest() // must be rejected
			case 1: // a redundant deletion at or below what is already gone
				n = t.first() - 1
				if n > 0 && r.Intn(2) == 0 {
					n = r.Int63n(n + 1)
				}
			default:
				n = t.first() + int64(r.Intn(int(t.latest()-t.first())))
			}
			if n >= t.cur && n < t.latest() {
				n = t.cur - 1
			}
			if n < 0 {
				continue
			}
			ops = append(ops, []string{pruneTok, i64(n)})
			if n < t.latest() {
				var keep []int64
				for _, v := range t.versions {
					if v > n {
						keep = append(keep, v)
					}
				}
				t.versions = keep
			}
		case "lvfo":
			if len(t.versions) == 0 || p.NoLvfo {
				continue
			}
			v := t.versions[r.Intn(len(t.versions))]
			lvfoTok := "lvfo"
			if p.WPrune {
				lvfoTok = "wlvfo"
			}
			if r.Intn(4) == 0 && !t.dirty {
				// the same rollback by DeleteVersionsFrom + reload
				ops = append(ops, []string{"dvreload", i64(v), []string{"reopen", "load"}[r.Intn(2)]})
			} else {
				ops = append(ops, []string{lvfoTok, i64(v)})
			}
			var keep []int64
			for _, w := range t.versions {
				if w <= v {
					keep = append(keep, w)
				}
			}
			t.versions = keep
			t.cur = v
			t.dirty = false
		case "read":
			tg := "w"
			if len(t.versions) > 0 && r.Intn(2) == 0 {
				tg = "v" + i64(t.versions[r.Intn(len(t.versions))])
			}
			var one [][]string
			readsOn(r, g, tg, false, &one)
			ops = append(ops, one[r.Intn(len(one))])
			continue
		case "whash":
			ops = append(ops, []string{"whash"})
			continue
		case "reopenat":
			// a fresh tree object that loads an older version directly (no Load() of the latest first)
			if len(t.versions) == 0 {
				continue
			}
			v := t.versions[r.Intn(len(t.versions))]
			if !t.dirty && t.cur == t.latest() && r.Intn(2) == 0 {
				// the index is stale when the older version is opened: commits made with the index
				// disabled change existing keys, then the index is built by an open AT v
				ops = append(ops, []string{"reopen", "fast=false"})
				for i, m := 0, 1+r.Intn(2); i < m; i++ {
					ops = append(ops, []string{"set", hx(g.key()), hx([]byte(fmt.Sprintf("late%d", i)))}, []string{"save"})
					t.versions = append(t.versions, t.latest()+1)
				}
				ops = append(ops, []string{"reopenat", i64(v), "fast=true"}, []string{"audit", "fast"})
				for _, u := range t.versions {
					if u >= v {
						ops = append(ops, []string{"getv", hx(g.key()), i64(u)}, []string{"r", "v" + i64(u), "get", hx(g.key())})
					}
				}
			} else {
				ops = append(ops, []string{"reopenat", i64(v), fmt.Sprintf("fast=%v", r.Intn(3) != 0)})
			}
			t.cur = v
			t.dirty = false
			obs(r, g, t, false, &ops)
		case "dvfrom":
			// load an older version, (write without committing,) delete everything above it WITHOUT
			// reloading, go on writing
			if len(t.versions) < 2 || t.dirty {
				continue
			}
			v0 := t.versions[r.Intn(len(t.versions)-1)]
			if r.Intn(3) != 0 {
				ops = append(ops, []string{"reopen", "fast=true"})
			}
			if t.cur == t.latest() && r.Intn(3) == 0 {
				// the versions are deleted under a handle that stays at the latest one: until it is
				// reloaded, every deleted version - its own included - must be reported as gone
				top := t.latest()
				ops = append(ops, []string{"dvfrom", i64(v0 + 1)}, []string{"r", "v" + i64(top), "size"}, []string{"r", "v" + i64(v0+1), "size"},
					[]string{"vexists", i64(top)}, []string{"getv", hx(g.key()), i64(top)}, []string{"avail"}, []string{"latest"})
				ops = append(ops, []string{"load", i64(v0)}, []string{"audit", "fast"})
			} else {
				ops = append(ops, []string{"load", i64(v0)})
				if r.Intn(3) != 0 {
					ops = append(ops, []string{"set", hx(g.key()), hx([]byte("uncommitted"))}, []string{"rm", hx(g.key())})
				}
				ops = append(ops, []string{"dvfrom", i64(v0 + 1)}, []string{"audit", "fast"})
			}
			if r.Intn(3) == 0 {
				ops = append(ops, []string{"rollback"})
			}
			var keep []int64
			for _, w := range t.versions {
				if w <= v0 {
					keep = append(keep, w)
				}
			}
			t.versions = keep
			t.cur = v0
			t.dirty = false
			ops = append(ops, []string{"set", hx(g.key()), hx(g.value())}, []string{"save"})
			t.versions = append(t.versions, v0+1)
			t.cur = v0 + 1
			muts++
			obs(r, g, t, false, &ops)
			continue
		case "pintest":
			if len(t.versions) == 0 {
				continue
			}
			ops = append(ops, []string{"pintest", i64(t.versions[r.Intn(len(t.versions))])})
			// the refused deletions must leave the version bookkeeping alone
			bookkeeping(r, g, t, &ops)
			continue
		case "faultreopen":
			// an open that has to build the index (commits made with the index disabled), and a plain one
			if t.dirty {
				continue
			}
			ops = append(ops, []string{"reopen", "fast=false"}, []string{"set", hx(g.key()), hx([]byte("y"))}, []string{"save"})
			nv := t.latest() + 1
			if t.latest() == 0 && iv > 0 {
				nv = iv
			}
			if !t.has(nv) {
				t.versions = append(t.versions, nv)
			}
			t.cur = t.latest()
			ops = append(ops, []string{"fault", "reopen", "fast=true"}, []string{"fault", "reopen", "fast=true"})
			t.dirty = false
			muts++
			continue
		case "failedopen":
			// a new tree object whose first LoadVersion fails (no such version) is used for reads of
			// the retained versions, then replaced by a properly opened one
			if len(t.versions) == 0 || t.dirty {
				continue
			}
			ops = append(ops, []string{"reopenat", i64(t.latest() + 1 + int64(r.Intn(3))), fmt.Sprintf("fast=%v", r.Intn(4) != 0)})
			for i := 0; i < 3; i++ {
				v := t.versions[r.Intn(len(t.versions))]
				if i == 0 {
					v = t.latest()
				}
				k := hx(g.key())
				ops = append(ops, []string{"r", "v" + i64(v), "get", k}, []string{"getv", k, i64(v)},
					[]string{"r", "v" + i64(v), "iter", "-", "-", "0", "1"})
			}
			ops = append(ops, []string{"reopen", fmt.Sprintf("fast=%v", r.Intn(2) == 0)})
			t.cur = t.latest()
			t.dirty = false
			continue
		case "staleidx":
			// index disabled, history rewritten up to the same version number, index re-enabled
			if len(t.versions) < 2 || t.cur != t.latest() {
				continue
			}
			v := t.versions[len(t.versions)-2]
			ops = append(ops, []string{"reopen", "fast=false"}, []string{"lvfo", i64(v)},
				[]string{"set", hx(g.key()), hx([]byte("rewritten"))}, []string{"rm", hx(g.key())}, []string{"save"},
				[]string{"reopen", "fast=true"})
			t.cur = t.latest()
			obs(r, g, t, false, &ops)
		case "faults":
			// every single-fault position of a burst of reads and of one write operation
			tg := "w"
			if len(t.versions) > 0 && r.Intn(2) == 0 {
				tg = "v" + i64(t.versions[r.Intn(len(t.versions))])
			}
			k := hx(g.key())
			for _, rd := range [][]string{{"get", k}, {"has", hx(g.key())}, {"gwi", hx(g.probe())}, {"gbi", i64(int64(r.Intn(len(g.pool))))},
				{"iter", optTok(r, g), optTok(r, g), "0", strconv.Itoa(r.Intn(2))}, {"iterate"}, {"gproof", hx(g.key())}, {"gproof", hx(g.probe())}, {"export"}} {
				ops = append(ops, append([]string{"fault", "r", tg}, rd...))
			}
			if len(t.versions) > 0 {
				ops = append(ops, []string{"fault", "getv", k, i64(t.versions[r.Intn(len(t.versions))])})
				// the same on tree objects that have not loaded anything yet
				for _, v := range []int64{t.first(), t.versions[r.Intn(len(t.versions))]} {
					ops = append(ops, []string{"fault", "cold", "getv", k, i64(v)})
					ops = append(ops, []string{"fault", "cold", "r", "v" + i64(v), "get", k})
				}
				ops = append(ops, []string{"fault", "cold", "r", "v" + i64(t.first()), "iterate"})
			}
			continue
		case "faultimport":
			if len(t.versions) == 0 {
				continue
			}
			ops = append(ops, []string{"fault", "import", i64(t.versions[r.Intn(len(t.versions))])})
			continue
		case "faultsave":
			ops = append(ops, []string{"fault", "save"})
			nv := t.cur + 1
			if t.cur == 0 && iv > 0 {
				nv = iv
			}
			if !t.has(nv) {
				t.versions = append(t.versions, nv)
				t.cur = nv
			}
			t.dirty = false
		case "faultprune":
			if len(t.versions) < 2 || t.cur != t.latest() {
				continue
			}
			n := t.first() + int64(r.Intn(int(t.latest()-t.first())))
			ops = append(ops, []string{"fault", "prune", i64(n)})
			var keep []int64
			for _, v := range t.versions {
				if v > n {
					keep = append(keep, v)
				}
			}
			t.versions = keep
		case "ctab":
			ops = append(ops, []string{"ctab", "save"})
			nv := t.cur + 1
			if t.cur == 0 && iv > 0 {
				nv = iv
			}
			if !t.has(nv) {
				t.versions = append(t.versions, nv)
				t.cur = nv
			}
			t.dirty = false
		case "wsave":
			ops = append(ops, []string{"wsave"})
			nv := t.cur + 1
			if t.cur == 0 && iv > 0 {
				nv = iv
			}
			if !t.has(nv) {
				t.versions = append(t.versions, nv)
				t.cur = nv
			}
			t.dirty = false
		case "crashsave":
			ops = append(ops, []string{"crash", "save"})
			nv := t.cur + 1
			if t.cur == 0 && iv > 0 {
				nv = iv
			}
			if !t.has(nv) {
				t.versions = append(t.versions, nv)
				t.cur = nv
			}
			t.dirty = false
		case "crashprune":
			if len(t.versions) < 2 || t.cur != t.latest() {
				continue
			}
			n := t.first() + int64(r.Intn(int(t.latest()-t.first())))
			ops = append(ops, []string{"crash", "prune", i64(n)})
			var keep []int64
			for _, v := range t.versions {
				if v > n {
					keep = append(keep, v)
				}
			}
			t.versions = keep
		case "crashlvfo":
			if len(t.versions) < 2 {
				continue
			}
			v := t.versions[r.Intn(len(t.versions)-1)]
			ops = append(ops, []string{"crash", "lvfo", i64(v)})
			var keep []int64
			for _, w := range t.versions {
				if w <= v {
					keep = append(keep, w)
				}
			}
			t.versions = keep
			t.cur = v
			t.dirty = false
		case "faultlvfo":
			// a rollback under storage faults; also the load of a version and a change-set extraction
			if len(t.versions) < 2 {
				continue
			}
			if !t.dirty && t.cur == t.latest() && r.Intn(2) == 0 {
				// a commit without writes (its root record refers to the previous root), one with a
				// write, and the change set of the latter: the predecessor is read through the reference
				ops = append(ops, []string{"save"}, []string{"set", hx(g.key()), hx([]byte("after"))}, []string{"rm", hx(g.key())}, []string{"save"})
				t.versions = append(t.versions, t.latest()+1)
				t.versions = append(t.versions, t.latest()+1)
				t.cur = t.latest()
				ops = append(ops, []string{"fault", "changes", i64(t.latest()), i64(t.latest() + 1)})
			}
			v := t.versions[r.Intn(len(t.versions)-1)]
			if r.Intn(2) == 0 {
				ops = append(ops, []string{"fault", "changes", i64(t.first()), i64(t.latest() + 1)})
				ops = append(ops, []string{"fault", "cold", "load", i64(v)})
			}
			ops = append(ops, []string{"fault", "lvfo", i64(v)})
			var keep []int64
			for _, w := range t.versions {
				if w <= v {
					keep = append(keep, w)
				}
			}
			t.versions = keep
			t.cur = v
			t.dirty = false
		case "crashreopen":
			// first-time / forced index build: open with the index disabled, commit, re-enable
			ops = append(ops, []string{"reopen", "fast=false"}, []string{"set", hx(g.key()), hx([]byte("x"))}, []string{"save"})
			nv := t.latest() + 1
			if t.latest() == 0 && iv > 0 {
				nv = iv
			}
			t.versions = append(t.versions, nv)
			t.cur = nv
			ops = append(ops, []string{"crash", "reopen", "fast=true"})
			t.dirty = false
		case "expimp":
			if len(t.versions) == 0 {
				continue
			}
			v := t.versions[r.Intn(len(t.versions))]
			if r.Intn(8) == 0 {
				v = t.latest() + 1
			}
			ops = append(ops, []string{"expimp", i64(v), []string{"plain", "compress"}[r.Intn(2)], i64(r.Int63n(1 << 30))})
			continue
		case "costs":
			tg := "w"
			if len(t.versions) > 0 && r.Intn(4) != 0 {
				tg = "v" + i64(t.versions[r.Intn(len(t.versions))])
			}
			ops = append(ops, []string{"hbound", tg})
			if tg != "w" {
				for i := 0; i < 3; i++ {
					k := g.key()
					if p.Order != "" && seq > 0 {
						k = []byte(fmt.Sprintf("k%05d", r.Intn(seq)))
					}
					ops = append(ops, []string{"cost", tg, "get", hx(k)}, []string{"cost", tg, "has", hx(k)}, []string{"cost", tg, "gwi", hx(k)},
						[]string{"cost", tg, "gbi", i64(int64(r.Intn(seq + 2)))}, []string{"cost", tg, "gproof", hx(k)})
				}
				if p.Order != "" && seq > 0 && r.Intn(3) == 0 {
					// a sweep of absence proofs over the whole key range (the cost of a proof of
					// absence depends on where the two neighbours sit), and of lookups by rank
					stride := seq/48 + 1
					for j := 0; j < seq; j += stride {
						k := []byte(fmt.Sprintf("k%05d0", j))
						if p.Order == "desc" || (p.Order == "alt" && r.Intn(2) == 0) {
							k = []byte(fmt.Sprintf("k%05d0", 99999-j))
						}
						ops = append(ops, []string{"cost", tg, "gproof", hx(k)}, []string{"cost", tg, "has", hx(k)})
					}
				}
			}
			continue
		case "changes":
			if len(t.versions) == 0 {
				continue
			}
			a := t.first() - 1 + int64(r.Intn(int(t.latest()-t.first())+3))
			b := a + int64(r.Intn(4))
			if r.Intn(3) == 0 {
				a, b = 0, t.latest()+2
			}
			ops = append(ops, []string{"changes", i64(a), i64(b)})
			continue
		case "savecs":
			// a change set: mostly valid pairs, sometimes the removal of a missing key
			n := r.Intn(4)
			var ps []string
			for i := 0; i < n; i++ {
				if r.Intn(3) == 0 {
					ps = append(ps, hx(g.key())+"-")
				} else {
					v := g.value()
					if len(v) == 0 {
						ps = append(ps, hx(g.key())+"=")
					} else {
						ps = append(ps, hx(g.key())+"="+hx(v))
					}
				}
			}
			tok := "."
			if len(ps) > 0 {
				tok = strings.Join(ps, ",")
			}
			ops = append(ops, []string{"savecs", tok})
			// outcome unknown to the tracker: resynchronise through a reopen
			ops = append(ops, []string{"rollback"}, []string{"reopen"})
			// optimistic: if the change set was rejected the tracker believes in a version that
			// does not exist; later operations on it are then error cases on both sides
			if t.cur == t.latest() {
				nv := t.latest() + 1
				if t.latest() == 0 && iv > 0 {
					nv = iv
				}
				t.versions = append(t.versions, nv)
			}
			t.cur = t.latest()
			t.dirty = false
			muts++
			continue
		case "replaycs":
			ops = append(ops, []string{"replaycs"})
			continue
		case "rekeychain":
			// commit, commit without writes, delete the first of the two (its root is re-keyed),
			// write, commit, delete the next one: one deletion per call
			if t.cur != t.latest() || t.dirty {
				continue
			}
			if r.Intn(3) == 0 { // a one-leaf tree: its root is reused as a child later
				for _, k := range g.pool {
					ops = append(ops, []string{"rm", hx(k)})
				}
				ops = append(ops, []string{"set", hx(g.key()), hx(g.value())})
			} else if r.Intn(2) == 0 {
				ops = append(ops, []string{"set", hx(g.key()), hx(g.value())})
			}
			ops = append(ops, []string{"save"}, []string{"save"})
			a := t.latest() + 1
			if t.latest() == 0 && iv > 0 {
				a = iv
			}
			t.versions = append(t.versions, a, a+1)
			ops = append(ops, []string{pruneTok, i64(a)})
			ops = append(ops, []string{"set", hx(g.key()), hx(g.value())}, []string{"save"})
			t.versions = append(t.versions, a+2)
			ops = append(ops, []string{"changes", i64(a + 1), i64(a + 3)})
			if r.Intn(2) == 0 {
				ops = append(ops, []string{"rm", hx(g.key())}, []string{"set", hx(g.key()), hx(g.value())}, []string{"save"})
				t.versions = append(t.versions, a+3)
			}
			ops = append(ops, []string{pruneTok, i64(a + 1)})
			var keep []int64
			for _, v := range t.versions {
				if v > a+1 {
					keep = append(keep, v)
				}
			}
			t.versions = keep
			t.cur = t.latest()
			t.dirty = false
			muts++
			ops = append(ops, []string{"changes", i64(t.first() - 1), i64(t.latest() + 1)})
			obs(r, g, t, false, &ops)
			continue
		case "proofs":
			tg := "w"
			if len(t.versions) > 0 && r.Intn(4) != 0 {
				tg = "v" + i64(t.versions[r.Intn(len(t.versions))])
			}
			for _, k := range g.pool {
				ops = append(ops, []string{"r", tg, "proof", hx(k)})
			}
			ops = append(ops, []string{"r", tg, "proofbytes", hx(g.key())}, []string{"r", tg, "proofbytes", hx(g.probe())})
			for i := 0; i < 4; i++ {
				ops = append(ops, []string{"r", tg, "proof", hx(g.probe())})
			}
			continue
		case "touch":
			tg := "w"
			if len(t.versions) > 0 && r.Intn(3) == 0 {
				tg = "v" + i64(t.versions[r.Intn(len(t.versions))])
			}
			ops = append(ops, []string{"r", tg, "touch", hx(g.key())})
			continue
		case "resave":
			// reopen at / load an older version and commit again: identical or different content
			if r.Intn(2) == 0 && t.cur == t.latest() && !t.dirty {
				// commit A, writes W1, commit A+1, (writes W2, commit A+2), load A, replay W1, commit
				// again (the same hash: accepted without writing), (replay W2, commit), then read
				// the saved state, write and discard
				a := t.latest() + 1
				if t.latest() == 0 && iv > 0 {
					a = iv
				}
				wr := func() [][]string {
					var w [][]string
					for i, m := 0, 1+r.Intn(3); i < m; i++ {
						if r.Intn(4) == 0 {
							w = append(w, []string{"rm", hx(g.key())})
						} else {
							w = append(w, []string{"set", hx(g.key()), hx(g.value())})
						}
					}
					return w
				}
				w1, w2 := wr(), wr()
				two := r.Intn(2) == 0
				ops = append(ops, []string{"save"})
				ops = append(ops, w1...)
				ops = append(ops, []string{"save"})
				t.versions = append(t.versions, a, a+1)
				if two {
					ops = append(ops, w2...)
					ops = append(ops, []string{"save"})
					t.versions = append(t.versions, a+2)
				}
				ops = append(ops, []string{"load", i64(a)})
				ops = append(ops, w1...)
				ops = append(ops, []string{"save"}, []string{"hash"}, []string{"wver"})
				t.cur = a + 1
				if two && r.Intn(2) == 0 {
					ops = append(ops, w2...)
					ops = append(ops, []string{"save"}, []string{"hash"}, []string{"wver"})
					t.cur = a + 2
				}
				ops = append(ops, []string{"set", hx(g.key()), hx([]byte("discarded"))}, []string{"rollback"},
					[]string{"wver"}, []string{"hash"})
				obs(r, g, t, false, &ops)
				if r.Intn(2) == 0 {
					ops = append(ops, []string{"set", hx(g.key()), hx(g.value())}, []string{"save"})
					if !t.has(t.cur + 1) {
						t.versions = append(t.versions, t.cur+1)
					}
					t.cur++
				}
				t.dirty = false
				muts++
				continue
			}
			if len(t.versions) < 2 {
				continue
			}
			v := t.versions[r.Intn(len(t.versions)-1)]
			ops = append(ops, []string{"load", i64(v)})
			t.cur = v
			switch r.Intn(3) {
			case 0:
				ops = append(ops, []string{"set", hx(g.key()), hx(g.value())})
			case 1: // try to redo nothing: identical iff next version had no writes
			}
			ops = append(ops, []string{"save"})
		case "obs":
			obs(r, g, t, false, &ops)
			continue
		case "iters":
			tg := "w"
			if len(t.versions) > 0 && r.Intn(3) == 0 {
				tg = "v" + i64(t.versions[r.Intn(len(t.versions))])
			}
			for i := 0; i < 6; i++ {
				a, b := optTok(r, g), optTok(r, g)
				if r.Intn(5) == 0 {
					b = a
				}
				asc := strconv.Itoa(r.Intn(2))
				ops = append(ops, []string{"r", tg, "iter", a, b, "0", asc})
				ops = append(ops, []string{"r", tg, "iter", a, b, "1", asc})
				ops = append(ops, []string{"r", tg, "iterr", a, b, "0", asc})
			}
			continue
		}
		muts++
		if p.ObsEvery > 0 && muts%p.ObsEvery == 0 {
			obs(r, g, t, false, &ops)
		}
	}
	obs(r, g, t, true, &ops)
	c.Ops = ops
	return c
}
