package main

import (
	"bufio"
	"bytes"
	"crypto/md5"
	"errors"
	"fmt"
	"math/rand"
	"strconv"
	"strings"
	"time"

	"github.com/cosmos/iavl"
	dbm "github.com/cosmos/iavl/db"
)

// ---- C10: export / import fidelity (m1 op) and the importer on hostile streams (machine "imp") ----

// execExportImport exports version v with the given codec, imports into an empty database and
// compares: root hash, contents, proofs; then the same further writes on a copy of the original
// (opened at v) and on the imported tree must give the same hashes.
func (s *Sys) execExportImport(v int64, codec string, seed int64) string {
	imm, err := s.tree.GetImmutable(v)
	if err != nil {
		return "err"
	}
	ex, err := imm.Export()
	if err != nil {
		return "err"
	}
	var src iavl.NodeExporter = ex
	if codec == "compress" {
		src = iavl.NewCompressExporter(ex)
	}
	var nodes []*iavl.ExportNode
	for {
		n, err := src.Next()
		if errors.Is(err, iavl.ErrorExportDone) {
			break
		}
		if err != nil {
			ex.Close()
			return "ei(viol:export-error)"
		}
		nodes = append(nodes, n)
	}
	ex.Close()
	if want := 2*imm.Size() - 1; imm.Size() > 0 && int64(len(nodes)) != want {
		return fmt.Sprintf("ei(viol:stream-length %d want %d)", len(nodes), want)
	}
	db2 := dbm.NewMemDB()
	t2 := iavl.NewMutableTree(db2, 100, !s.fastNow, iavl.NewNopLogger(), iavl.FlushThresholdOption(s.cfg.Flush))
	imp, err := t2.Import(v)
	if err != nil {
		return "ei(viol:import-open)"
	}
	var dst iavl.NodeImporter = imp
	if codec == "compress" {
		dst = iavl.NewCompressImporter(imp)
	}
	for _, n := range nodes {
		if err := dst.Add(n); err != nil {
			imp.Close()
			return "ei(viol:add-error)"
		}
	}
	if err := imp.Commit(); err != nil {
		return "ei(viol:commit-error)"
	}
	// the node store the importer wrote (keys with the nonces it assigned, root entry), as a digest
	layout := fmt.Sprintf("%x", md5.Sum([]byte((&Sys{db: db2}).auditNodes(true))))
	i2, err := t2.GetImmutable(v)
	if err != nil {
		return "ei(viol:imported-version-missing)"
	}
	if !bytes.Equal(i2.Hash(), imm.Hash()) {
		return "ei(viol:hash)"
	}
	a := collectIter(imm.Iterator(nil, nil, true))
	b := collectIter(i2.Iterator(nil, nil, true))
	if a != b {
		return "ei(viol:contents)"
	}
	if imm.Size() != i2.Size() || imm.Height() != i2.Height() {
		return "ei(viol:shape)"
	}
	// proofs of a few keys agree and verify against the common root
	cnt := 0
	ok := true
	imm.IterateRange(nil, nil, true, func(k, _ []byte) bool {
		cnt++
		if cnt > 6 {
			return true
		}
		p1 := gproof(imm, imm.Hash(), k)
		p2 := gproof(i2, i2.Hash(), k)
		if p1 != p2 {
			ok = false
		}
		return false
	})
	if !ok {
		return "ei(viol:proofs)"
	}
	// the imported store reopens to the same version
	t3 := iavl.NewMutableTree(db2, 0, !s.fastNow, iavl.NewNopLogger())
	if lv, err := t3.Load(); err != nil || lv != v {
		return "ei(viol:reopen)"
	}
	if !bytes.Equal(t3.Hash(), imm.Hash()) {
		return "ei(viol:reopen-hash)"
	}
	// same future: identical writes on a copy of the original opened at v and on the import
	orig := imageDB(snapshotDB(s.db), nil)
	t1 := iavl.NewMutableTree(orig, 100, !s.fastNow, iavl.NewNopLogger())
	if _, err := t1.LoadVersion(v); err != nil {
		return "ei(viol:copy-load)"
	}
	if err := t1.LoadVersionForOverwriting(v); err != nil {
		return "ei(viol:copy-lvfo)"
	}
	r := rand.New(rand.NewSource(seed))
	g := newKeyGen(r, 6)
	for round := 0; round < 2; round++ {
		for i := 0; i < 4; i++ {
			k := g.key()
			if r.Intn(3) == 0 {
				_, _, e1 := t1.Remove(k)
				_, _, e2 := t3.Remove(k)
				if (e1 == nil) != (e2 == nil) {
					return "ei(viol:future-remove)"
				}
			} else {
				val := []byte(strconv.Itoa(r.Intn(100)))
				_, e1 := t1.Set(k, val)
				_, e2 := t3.Set(k, val)
				if (e1 == nil) != (e2 == nil) {
					return "ei(viol:future-set)"
				}
			}
		}
		if !bytes.Equal(t1.WorkingHash(), t3.WorkingHash()) {
			return "ei(viol:future-working-hash)"
		}
		h1, v1, e1 := t1.SaveVersion()
		h2, v2, e2 := t3.SaveVersion()
		if e1 != nil || e2 != nil || v1 != v2 || !bytes.Equal(h1, h2) {
			return "ei(viol:future-hash)"
		}
	}
	_ = t1.Close()
	_ = t3.Close()
	return "ei(ok;an=" + layout + ")"
}

// ---- machine "imp": hostile streams ----

func parseStream(tok string) []*iavl.ExportNode {
	if tok == "." {
		return nil
	}
	var out []*iavl.ExportNode
	for _, p := range strings.Split(tok, ";") {
		if p == "N" {
			out = append(out, nil)
			continue
		}
		f := strings.Split(p, ":")
		h := atoi(f[3])
		out = append(out, &iavl.ExportNode{Key: unhx(f[0]), Value: unhx(f[1]), Version: atoi(f[2]), Height: int8(h)})
	}
	return out
}

// runImp: "imp <version> <plain|compress> <stream>" => ok | err | panic | hang, followed by
// ";vis=<none|vN>" : what a fresh tree sees in the database afterwards.
func execImp(toks []string) string {
	version := atoi(toks[1])
	db := dbm.NewMemDB()
	done := make(chan string, 1)
	go func() {
		done <- safely(func() string {
			t := iavl.NewMutableTree(db, 10, false, iavl.NewNopLogger())
			imp, err := t.Import(version)
			if err != nil {
				return "err"
			}
			defer imp.Close()
			var dst iavl.NodeImporter = imp
			if toks[2] == "compress" {
				dst = iavl.NewCompressImporter(imp)
			}
			for _, n := range parseStream(toks[3]) {
				if n != nil {
					// the importer may keep the slices: give it private copies
					n = &iavl.ExportNode{Key: n.Key, Value: n.Value, Version: n.Version, Height: n.Height}
				}
				if err := dst.Add(n); err != nil {
					return "err"
				}
			}
			if err := imp.Commit(); err != nil {
				return "err"
			}
			return "ok"
		})
	}()
	var res string
	select {
	case res = <-done:
	case <-time.After(20 * time.Second):
		return "hang"
	}
	// visibility: nothing unless Commit succeeded
	vis := safely(func() string {
		t := iavl.NewMutableTree(db, 0, true, iavl.NewNopLogger())
		lv, err := t.Load()
		if err != nil {
			return "loaderr"
		}
		if lv == 0 {
			return "none"
		}
		return "v" + i64(lv)
	})
	return res + ";vis=" + vis
}

func runImp(w *bufio.Writer, c Case, cs string, stats map[string]int) {
	for _, op := range c.Ops {
		res := execImp(op)
		stats["op:imp"]++
		stats["x:"+strings.SplitN(res, ";", 2)[0]]++
		fmt.Fprintf(w, "%s => %s\n", strings.Join(op, " "), res)
	}
}

func streamTok(nodes []string) string {
	if len(nodes) == 0 {
		return "."
	}
	return strings.Join(nodes, ";")
}

// mostly-valid streams (a real export, mutated) plus a separate malformed stream
func genImp(r *rand.Rand, tier, id string) Case {
	c := Case{ID: id, Kind: "imp", Cfgs: []string{""}}
	for n := 0; n < 25; n++ {
		version := int64(1 + r.Intn(4))
		// build a valid post-order stream for a random small tree shape
		var nodes []string
		var build func(lo, hi int, depth int) int // returns height
		keys := 1 + r.Intn(6)
		build = func(lo, hi int, depth int) int {
			if hi-lo == 1 {
				nodes = append(nodes, fmt.Sprintf("%s:%s:%d:0", hx([]byte{byte('a' + lo)}), hx([]byte{byte('0' + lo)}), 1+r.Int63n(version)))
				return 0
			}
			mid := (lo + hi) / 2
			hl := build(lo, mid, depth+1)
			hr := build(mid, hi, depth+1)
			h := hl
			if hr > h {
				h = hr
			}
			h++
			nodes = append(nodes, fmt.Sprintf("%s:-:%d:%d", hx([]byte{byte('a' + mid)}), version, h))
			return h
		}
		build(0, keys, 0)
		// mutate
		switch r.Intn(10) {
		case 0, 1, 2: // valid as is
		case 3: // drop a node
			i := r.Intn(len(nodes))
			nodes = append(nodes[:i], nodes[i+1:]...)
		case 4: // swap two nodes
			if len(nodes) > 1 {
				i, j := r.Intn(len(nodes)), r.Intn(len(nodes))
				nodes[i], nodes[j] = nodes[j], nodes[i]
			}
		case 5: // nil node
			i := r.Intn(len(nodes) + 1)
			nodes = append(nodes[:i], append([]string{"N"}, nodes[i:]...)...)
		case 6: // bad version
			i := r.Intn(len(nodes))
			f := strings.Split(nodes[i], ":")
			f[2] = []string{"-1", "0", i64(version + 1), "-9223372036854775808", "9223372036854775807"}[r.Intn(5)]
			nodes[i] = strings.Join(f, ":")
		case 7: // bad height
			i := r.Intn(len(nodes))
			f := strings.Split(nodes[i], ":")
			f[3] = []string{"-1", "0", "1", "5", "127", "-128"}[r.Intn(6)]
			nodes[i] = strings.Join(f, ":")
		case 8: // nil / empty key or value
			i := r.Intn(len(nodes))
			f := strings.Split(nodes[i], ":")
			f[r.Intn(2)] = []string{"-", "."}[r.Intn(2)]
			nodes[i] = strings.Join(f, ":")
		case 9: // random nodes
			nodes = nil
			for i := 0; i < r.Intn(5); i++ {
				nodes = append(nodes, fmt.Sprintf("%s:%s:%d:%d", []string{"-", ".", "61", "0561", "62"}[r.Intn(5)],
					[]string{"-", ".", "31"}[r.Intn(3)], r.Int63n(version+2)-1, r.Intn(4)-1))
			}
		}
		codec := "plain"
		if r.Intn(3) == 0 {
			codec = "compress"
		}
		c.Ops = append(c.Ops, []string{"imp", i64(version), codec, streamTok(nodes)})
	}
	return c
}

// one large tree: more than one import batch (maxBatchSize = 10000 nodes)
func genBigImport(r *rand.Rand, tier, id string) Case {
	c := Case{ID: id, Kind: "m1", Params: []string{"iv=-"}, Cfgs: []string{"cache=1000,fast=false,flush=100000,sync=false,backend=memdb"}}
	n := 5050
	for i := 0; i < n; i++ {
		c.Ops = append(c.Ops, []string{"set", hx([]byte(fmt.Sprintf("key%06d", r.Intn(1<<20)))), hx([]byte(strconv.Itoa(i)))})
	}
	c.Ops = append(c.Ops, []string{"save"}, []string{"r", "w", "size"}, []string{"expimp", "1", []string{"plain", "compress"}[r.Intn(2)], "7"})
	return c
}

// the same large tree imported under faults: every batch write of the importer (the background
// batches included) and a sample of the other calls
func genBigFaultImport(r *rand.Rand, tier, id string) Case {
	c := Case{ID: id, Kind: "m1", Params: []string{"iv=-"}, Cfgs: []string{"cache=1000,fast=false,flush=100000,sync=false,backend=memdb,wrap=true"}}
	// 5050 leaves: two batches (one background batch in flight at Commit); 10050: three batches
	c.Ops = append(c.Ops, []string{"fault", "bigimport", "5050"}, []string{"fault", "bigimport", "10050"})
	return c
}

// crash points of a large import: every prefix of its physical batches (C05)
func genBigCrashImport(r *rand.Rand, tier, id string) Case {
	c := Case{ID: id, Kind: "m1", Params: []string{"iv=-"}, Cfgs: []string{"cache=1000,fast=false,flush=100000,sync=false,backend=memdb,wrap=true"}}
	c.Ops = append(c.Ops, []string{"crash", "bigimport", "5050"})
	if tier != "quick" {
		c.Ops = append(c.Ops, []string{"crash", "bigimport", "10050"})
	}
	return c
}

func init() {
	generators["C05big"] = genBigCrashImport
	generators["C17big"] = genBigFaultImport
	runners["imp"] = runImp
	generators["C10h"] = genImp
	generators["C10big"] = genBigImport
}
