package main

import (
	"bytes"
	"flag"
	"fmt"
	"sync"

	corestore "cosmossdk.io/core/store"
	"github.com/cosmos/iavl"
	dbm "github.com/cosmos/iavl/db"
)

// probe: readers inside the commit window (C06). A reader of the published latest version V that
// runs while the writer is inside SaveVersion of V+1 may see the recorded commit-window anomaly for
// version V itself, but it must not leave anything behind: after the commit every version reads
// exactly its contents. Each round a NEW tree object is opened (empty caches), a key that was never
// read through it is removed together with large values (so that hashing keeps the commit busy),
// and a reader goroutine is released at the moment the commit puts the storage version label into
// its batch (after the index updates, before the nodes are written).

type probeDB struct {
	corestore.KVStoreWithBatch
	sig chan struct{}
}

type probeBatch struct {
	corestore.Batch
	sig chan struct{}
}

func (d *probeDB) NewBatch() corestore.Batch {
	return &probeBatch{d.KVStoreWithBatch.NewBatch(), d.sig}
}

func (d *probeDB) NewBatchWithSize(n int) corestore.Batch {
	return &probeBatch{d.KVStoreWithBatch.NewBatchWithSize(n), d.sig}
}

func (b *probeBatch) Set(k, v []byte) error {
	if bytes.Equal(k, []byte("mstorage_version")) {
		select {
		case b.sig <- struct{}{}:
		default:
		}
	}
	return b.Batch.Set(k, v)
}

func cmdProbe(args []string) int {
	fs := flag.NewFlagSet("probe", flag.ExitOnError)
	rounds := fs.Int("rounds", 12, "rounds")
	_ = fs.Parse(args)
	mem := dbm.NewMemDB()
	sig := make(chan struct{}, 1)
	db := &probeDB{mem, sig}
	big := bytes.Repeat([]byte{0x5a}, 1<<20)
	contents := map[string]string{}
	// version 1: the keys that will be removed one per round
	{
		t := iavl.NewMutableTree(db, 100, false, iavl.NewNopLogger())
		if _, err := t.Load(); err != nil {
			fmt.Println("PROBE error", err)
			return 2
		}
		for i := 0; i < *rounds+4; i++ {
			k := fmt.Sprintf("victim%03d", i)
			_, _ = t.Set([]byte(k), []byte("v"+k))
			contents[k] = "v" + k
		}
		if _, _, err := t.SaveVersion(); err != nil {
			fmt.Println("PROBE error", err)
			return 2
		}
		_ = t.Close()
	}
	for r := 0; r < *rounds; r++ {
		select {
		case <-sig:
		default:
		}
		t := iavl.NewMutableTree(db, 100, false, iavl.NewNopLogger())
		lv, err := t.Load()
		if err != nil {
			fmt.Println("PROBE error", err)
			return 2
		}
		victim := fmt.Sprintf("victim%03d", r)
		old := contents[victim]
		_, _, _ = t.Remove([]byte(victim))
		for i := 0; i < 12; i++ {
			_, _ = t.Set([]byte(fmt.Sprintf("big%02d", i)), append([]byte{byte(r), byte(i)}, big...))
		}
		var wg sync.WaitGroup
		wg.Add(1)
		go func() {
			defer wg.Done()
			<-sig
			if im, err := t.GetImmutable(lv); err == nil {
				_, _ = im.Get([]byte(victim)) // whatever it answers: the recorded commit-window finding
			}
		}()
		_, nv, err := t.SaveVersion()
		select {
		case sig <- struct{}{}: // release the reader if the commit never signalled
		default:
		}
		wg.Wait()
		if err != nil {
			fmt.Println("PROBE error", err)
			return 2
		}
		delete(contents, victim)
		// after the commit: the previous version still has the key, the new one does not
		imOld, err1 := t.GetImmutable(lv)
		imNew, err2 := t.GetImmutable(nv)
		if err1 != nil || err2 != nil {
			fmt.Printf("PROBE viol round %d: GetImmutable %v %v\n", r, err1, err2)
			return 1
		}
		if v, _ := imOld.Get([]byte(victim)); string(v) != old {
			fmt.Printf("PROBE viol round %d: version %d Get(%s)=%q want %q\n", r, lv, victim, v, old)
			return 1
		}
		if v, _ := imNew.Get([]byte(victim)); v != nil {
			fmt.Printf("PROBE viol round %d: version %d Get(%s)=%q although the key was removed in that version\n", r, nv, victim, v)
			return 1
		}
		if v, _ := t.Get([]byte(victim)); v != nil {
			fmt.Printf("PROBE viol round %d: working tree Get(%s)=%q after the removal was committed\n", r, victim, v)
			return 1
		}
		if has, _ := imNew.Has([]byte(victim)); has {
			fmt.Printf("PROBE viol round %d: version %d Has(%s)\n", r, nv, victim)
			return 1
		}
		_ = t.Close()
	}
	fmt.Printf("PROBE ok rounds=%d\n", *rounds)
	return 0
}

func init() { commands["probe"] = cmdProbe }
