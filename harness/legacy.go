package main

// C16: databases written by the legacy library (hash-keyed nodes, orphan records), opened and
// continued by the current library.
//
// Case kind "m1l": header parameters iv=- legacy=<n>; the op list is
//
//	<legacy phase>  set k v | rm k | save | prune v | ldel v   (executed by /verif/build/legacygen)
//	legacyend                                            (the legacy process exits, the current library opens the directory)
//	<new phase>     the m1 vocabulary, plus
//	                "lprune n"  DeleteVersionsTo(n) with n below the latest legacy version while
//	                            legacy versions exist (observed: nil, nothing is deleted)
//	                "x laudit"  harness-side audit of the legacy key space (the model answers ok)
//
// A legacy-phase "prune v" is executed as DeleteVersion(i) for every retained i <= v in
// ascending order, which is what the model's prune does to a versioned map; "ldel v" (profile
// C16h only) is one DeleteVersion(v): the model drops that single version. The trace is an m1
// trace: the model replays the legacy phase too, and the results that the legacy library
// reported (updated flags, removed values, root hashes, version numbers) are the expected
// results of those lines. "legacyend => ok" states that the current library, right after
// Load(), reports the versions, root hashes and contents that the legacy library reported at
// its exit (compared inside the harness, without the model); afterwards the same facts are
// emitted as ordinary reads for the model to check.
//
// Profiles: C16 (whole grammar), C16s (clear of the triggers of the defects found by C16),
// C16h (C16s + holes in the legacy history).

import (
	"bufio"
	"bytes"
	"crypto/sha256"
	"encoding/binary"
	"encoding/hex"
	"fmt"
	"math/rand"
	"os"
	"os/exec"
	"path/filepath"
	"sort"
	"strconv"
	"strings"

	dbm "github.com/cosmos/iavl/db"
)

func init() {
	generators["C16"] = func(r *rand.Rand, tier, id string) Case { return genC16(r, tier, id, c16Avoid{}) }
	// C16s: the same grammar restricted to histories that stay clear of the defects found with
	// C16 (see the trigger notes at genC16), so that anything else stands out
	// (VERIF_C16_AVOID=empty,flush,refsave selects a subset of the restrictions; default: all)
	generators["C16s"] = func(r *rand.Rand, tier, id string) Case {
		a := c16Avoid{empty: true, flush: true, refsave: true}
		if e, ok := os.LookupEnv("VERIF_C16_AVOID"); ok {
			a = c16Avoid{empty: strings.Contains(e, "empty"), flush: strings.Contains(e, "flush"), refsave: strings.Contains(e, "refsave")}
		}
		return genC16(r, tier, id, a)
	}
	// C16h: C16s with legacy-side deletions of arbitrary single versions ("ldel v"): the legacy
	// history has holes, orphan records span deleted neighbours
	generators["C16h"] = func(r *rand.Rand, tier, id string) Case {
		return genC16(r, tier, id, c16Avoid{empty: true, flush: true, refsave: true, holes: true})
	}
	// C16r: one commit whose root is an untouched legacy node (incl. a legacy subtree promoted by
	// removals), then ordinary history without rollbacks
	generators["C16r"] = func(r *rand.Rand, tier, id string) Case {
		return genC16(r, tier, id, c16Avoid{empty: true, flush: true, refsave: true, oneRefsave: true})
	}
	// C17l: C16s where the deletion that crosses the legacy/new boundary runs under the storage
	// fault explorer ("fault prune n")
	generators["C17l"] = func(r *rand.Rand, tier, id string) Case {
		return genC16(r, tier, id, c16Avoid{empty: true, flush: true, refsave: true, faults: true})
	}
	// C16p: long legacy histories (many orphan records), the write batch flushed in the middle of
	// operations, no rollback (its interplay with flushes is the recorded C16-rollback-split-flush):
	// deletions across the boundary while the batch is written out
	generators["C16p"] = func(r *rand.Rand, tier, id string) Case {
		return genC16(r, tier, id, c16Avoid{empty: true, refsave: true, pruneOnly: true})
	}
	runners["m1l"] = runM1L
}

// ---------------------------------------------------------------------------------------------
// generator
// ---------------------------------------------------------------------------------------------

// restrictions of the grammar (see genC16)
type c16Avoid struct {
	empty, flush, refsave bool
	holes                 bool // legacy-side deletions of single versions in any order ("ldel v")
	pruneOnly             bool // long legacy history, no rollback / load, small flush thresholds
	faults                bool // the deletion across the boundary is explored under storage faults
	oneRefsave            bool // exactly one commit whose root is an untouched legacy node, no rollback afterwards
}

// legacy-side settings (lfast: fast index of the legacy library, lcache: its node cache) are
// model-invisible: they travel in the configuration string
func c16Configs(r *rand.Rand, tier string, n int, safe bool) []string {
	caches := []int{0, 1, 3, 1000}
	flushes := []int{200, 400, 1000, 100000}
	if safe {
		flushes = []int{100000}
	}
	// "leveldb": the directory is opened in place; the others receive a copy of every pair
	backends := []string{"leveldb", "leveldb", "memdb", "prefix"}
	if tier != "quick" {
		backends = append(backends, "prefixleveldb")
	}
	var out []string
	for i := 0; i < n; i++ {
		c := Config{Cache: caches[r.Intn(len(caches))], Fast: r.Intn(2) == 0, Flush: flushes[r.Intn(len(flushes))],
			Sync: r.Intn(4) == 0, Backend: backends[r.Intn(len(backends))]}
		out = append(out, fmt.Sprintf("%s,lfast=%v,lcache=%d", c.String(), r.Intn(3) != 0, []int{0, 2, 100}[r.Intn(3)]))
	}
	return out
}

// obs without the raw-layout audits (legacy nodes are laid out differently from the model's)
func c16obs(r *rand.Rand, g *keyGen, t *track, full bool, ops *[][]string) {
	var tmp [][]string
	obs(r, g, t, full, &tmp)
	for _, op := range tmp {
		// davail: discovery over legacy root keys is not the model's (Discover.v is the new format)
		if op[0] != "audit" && op[0] != "davail" {
			*ops = append(*ops, op)
		}
	}
}

// contents, hash and size of every version in [lo, hi] (absent ones included), plus the bookkeeping
func c16sweep(t *track, lo, hi int64, ops *[][]string) {
	if lo < 1 {
		lo = 1
	}
	if hi-lo > 16 {
		lo = hi - 16
	}
	*ops = append(*ops, []string{"avail"}, []string{"latest"})
	for v := lo; v <= hi; v++ {
		tg := "v" + i64(v)
		*ops = append(*ops, []string{"vexists", i64(v)}, []string{"r", tg, "hash"}, []string{"r", tg, "iter", "-", "-", "0", "1"})
	}
}

// genC16 generates one legacy + new history. The restrictions avoid the triggers of the defects
// found with the unrestricted grammar:
//   - no empty legacy tree (a key that is set first and never removed)      [rollback across an empty legacy root panics]
//   - the write batch is never flushed in the middle of an operation        [rollback over legacy versions re-reads nodes it deleted]
//   - every commit follows a set, so its root is a new node, never an untouched legacy node
//     [a legacy node committed as a root is rewritten under the key (version,0), which all
//     legacy nodes of that version share]
func genC16(r *rand.Rand, tier, id string, avoid c16Avoid) Case {
	nkeys := 4 + r.Intn(6)
	maxLegacy := 6
	newMuts := 8 + r.Intn(30)
	if tier == "thorough" && r.Intn(3) == 0 {
		nkeys, maxLegacy, newMuts = nkeys*4, 14, newMuts*3
	}
	if avoid.pruneOnly {
		nkeys, maxLegacy = 12+r.Intn(10), 40
	}
	g := newKeyGen(r, nkeys)
	n := int64(1 + r.Intn(maxLegacy))
	if avoid.pruneOnly {
		n = 20 + int64(r.Intn(20))
	}
	c := Case{ID: id, Kind: "m1l", Params: []string{"iv=-", "legacy=" + i64(n)}}
	var ops [][]string

	anchor := g.pool[0]
	setSince := false // a set since the last commit / reload
	doSet := func() {
		ops = append(ops, []string{"set", hx(g.key()), hx(g.value())})
		setSince = true
	}
	doRm := func() {
		k := g.key()
		if avoid.empty && bytes.Equal(k, anchor) {
			doSet()
			return
		}
		ops = append(ops, []string{"rm", hx(k)})
	}
	write := func() {
		if r.Intn(10) < 7 {
			doSet()
		} else {
			doRm()
		}
	}
	if avoid.empty {
		ops = append(ops, []string{"set", hx(anchor), hx([]byte("anchor"))})
	}

	// ---- legacy phase ----
	withDel := r.Intn(2) == 0 || avoid.holes
	first := int64(1)
	gone := map[int64]bool{}
	for v := int64(1); v <= n; v++ {
		kind := r.Intn(8)
		if avoid.empty && kind == 1 {
			kind = 2
		}
		switch kind {
		case 0: // a version without writes (an empty tree when it is the first one)
		case 1: // remove everything: an empty tree in the middle of the history
			for _, k := range g.pool {
				ops = append(ops, []string{"rm", hx(k)})
			}
		default:
			for i, m := 0, 1+r.Intn(6); i < m; i++ {
				write()
			}
		}
		ops = append(ops, []string{"save"})
		if avoid.holes {
			if withDel && v >= 2 && r.Intn(5) < 3 {
				pv := 1 + r.Int63n(v-1) // any earlier version, retained or not (then: refused)
				ops = append(ops, []string{"ldel", i64(pv)})
				gone[pv] = true
			}
		} else if withDel && v >= 2 && first < v && r.Intn(5) < 2 {
			pv := first + r.Int63n(v-first) // first <= pv <= v-1
			ops = append(ops, []string{"prune", i64(pv)})
			first = pv + 1
		}
	}
	if r.Intn(10) == 0 { // the legacy process exits with uncommitted writes
		write()
	}
	ops = append(ops, []string{"legacyend"})

	// ---- new phase ----
	t := &track{iv: -1, cur: n}
	for v := first; v <= n; v++ {
		if !gone[v] {
			t.versions = append(t.versions, v)
		}
	}
	L := n              // latest legacy version while legacy versions exist
	legacyAlive := true // false once a prune at or above the boundary has run

	setSince = false
	save := func() {
		if avoid.refsave && !setSince {
			doSet()
		}
		setSince = false
		ops = append(ops, []string{"save"})
		nv := t.cur + 1
		if !t.has(nv) {
			t.versions = append(t.versions, nv)
			t.cur = nv
		}
		t.dirty = false
	}
	dropTo := func(nv int64) { // versions <= nv leave
		var keep []int64
		for _, v := range t.versions {
			if v > nv {
				keep = append(keep, v)
			}
		}
		t.versions = keep
	}
	// DeleteVersionsTo(nv): below the boundary it is emitted as lprune
	prune := func(nv int64) {
		lo := t.first()
		if legacyAlive && nv < L {
			ops = append(ops, []string{"lprune", i64(nv)})
		} else {
			if avoid.faults && nv < t.latest() && (legacyAlive || r.Intn(3) == 0) {
				ops = append(ops, []string{"fault", "prune", i64(nv)})
			} else {
				ops = append(ops, []string{"prune", i64(nv)})
			}
			if nv < t.latest() {
				dropTo(nv)
				if legacyAlive {
					legacyAlive = false
				}
			}
		}
		c16sweep(t, lo-1, t.latest()+1, &ops)
		ops = append(ops, []string{"x", "laudit"})
	}
	lvfo := func(v int64) {
		lo, hi := t.first(), t.latest()
		ops = append(ops, []string{"lvfo", i64(v)})
		var keep []int64
		for _, w := range t.versions {
			if w <= v {
				keep = append(keep, w)
			}
		}
		t.versions = keep
		t.cur = v
		t.dirty = false
		setSince = false
		if legacyAlive && v < L {
			L = v
		}
		c16sweep(t, lo-1, hi+1, &ops)
		ops = append(ops, []string{"x", "laudit"})
	}
	reopen := func() {
		if r.Intn(4) == 0 { // the fast index is switched on or off
			ops = append(ops, []string{"reopen", fmt.Sprintf("fast=%v", r.Intn(2) == 0)})
		} else {
			ops = append(ops, []string{"reopen"})
		}
		t.cur = t.latest()
		t.dirty = false
		setSince = false
	}
	legacyPick := func() int64 { return t.versions[r.Intn(len(t.versions))] }

	if avoid.oneRefsave {
		// exactly ONE commit whose root is an untouched legacy node: either without writes, or
		// after removals that may promote a persisted legacy subtree to the root. (A second such
		// commit, or a rollback below the boundary afterwards, are the recorded findings
		// C16-history-rewritten / C16-refsave-then-rollback.)
		if r.Intn(3) != 0 {
			for i, m := 0, 1+r.Intn(3); i < m; i++ {
				doRm()
			}
		}
		setSince = false
		ops = append(ops, []string{"save"})
		if nv := t.cur + 1; !t.has(nv) {
			t.versions = append(t.versions, nv)
			t.cur = nv
		}
		t.dirty = false
		c16sweep(t, first-1, t.latest()+1, &ops)
		c16obs(r, g, t, false, &ops)
		reopen()
		c16sweep(t, first-1, t.latest()+1, &ops)
	} else {
		// scripted openings: the situations named by the property
		opening := r.Intn(10)
		if avoid.pruneOnly {
			opening = []int{0, 2, 3, 4, 6, 7}[r.Intn(6)]
		}
		switch opening {
		case 0: // commits without writes on a legacy root
			for i, m := 0, 1+r.Intn(3); i < m; i++ {
				save()
			}
			c16sweep(t, first-1, t.latest()+1, &ops)
		case 1: // rollback to a legacy version straight away
			lvfo(legacyPick())
		case 2:
			reopen()
		case 3: // reference root, then prune exactly at the boundary
			save()
			if r.Intn(2) == 0 {
				reopen()
			}
			prune(L)
		case 4: // below the boundary, then at the boundary
			write()
			save()
			if L > first {
				prune(first + r.Int63n(L-first))
			}
			prune(L)
		case 5: // back to a legacy-only database, then forward again
			save()
			write()
			save()
			lvfo(L)
			save()
		case 6: // nothing but legacy versions: pruning the latest must be refused
			prune(L)
			if L > first {
				prune(L - 1)
			}
		case 7: // above the boundary
			save()
			write()
			save()
			write()
			save()
			prune(L + 1)
		case 8: // rollback below the legacy latest, commit on top, prune around the new boundary
			v := legacyPick()
			lvfo(v)
			write()
			save()
			if r.Intn(2) == 0 {
				reopen()
			}
			if v > first {
				prune(v - 1)
			}
			prune(v)
		}
	}

	w := map[string]int{"set": 30, "rm": 12, "save": 20, "reopen": 8, "prune": 12, "lvfo": 5, "load": 4, "rollback": 2, "read": 8, "whash": 2}
	if avoid.oneRefsave {
		w = map[string]int{"set": 30, "rm": 12, "save": 20, "reopen": 8, "prune": 6, "rollback": 2, "read": 8, "whash": 2}
	}
	if avoid.pruneOnly {
		w = map[string]int{"set": 30, "rm": 12, "save": 20, "reopen": 8, "prune": 12, "rollback": 2, "read": 8, "whash": 2}
	}
	muts := 0
	for muts < newMuts && len(ops) < 6000 {
		switch pickWeighted(r, w) {
		case "set":
			doSet()
			t.dirty = true
		case "rm":
			doRm()
			t.dirty = true
		case "save":
			save()
		case "rollback":
			ops = append(ops, []string{"rollback"})
			t.dirty = false
			setSince = false
		case "reopen":
			reopen()
		case "load":
			if len(t.versions) == 0 {
				continue
			}
			v := legacyPick()
			if v != t.latest() && !t.has(v+1) {
				continue // a commit on top would fill a hole of the legacy history: not a history of interest
			}
			ops = append(ops, []string{"load", i64(v)})
			t.cur = v
			t.dirty = false
			setSince = false
		case "prune":
			if len(t.versions) < 2 {
				continue
			}
			var nv int64
			switch r.Intn(8) {
			case 0:
				nv = t.latest() // must be refused
			case 1:
				nv = t.first() - 1
			case 2, 3:
				if legacyAlive {
					nv = L // exactly at the boundary
				} else {
					nv = t.first()
				}
			case 4:
				if legacyAlive {
					nv = L + 1
				} else {
					nv = t.latest() - 1
				}
			default:
				nv = t.first() + r.Int63n(t.latest()-t.first())
			}
			// keep the version the working tree is based on
			if nv >= t.cur && nv < t.latest() {
				nv = t.cur - 1
			}
			if nv < 0 {
				continue
			}
			prune(nv)
		case "lvfo":
			if len(t.versions) == 0 {
				continue
			}
			v := legacyPick()
			if legacyAlive && r.Intn(2) == 0 { // prefer a legacy target (possibly a hole: refused)
				v = t.first() + r.Int63n(L-t.first()+1)
				if !t.has(v) {
					ops = append(ops, []string{"lvfo", i64(v)})
					continue
				}
			}
			lvfo(v)
		case "read":
			tg := "w"
			if len(t.versions) > 0 && r.Intn(3) != 0 {
				tg = "v" + i64(legacyPick())
			}
			var one [][]string
			readsOn(r, g, tg, false, &one)
			ops = append(ops, one[r.Intn(len(one))])
			continue
		case "whash":
			ops = append(ops, []string{"whash"})
			continue
		}
		muts++
		if muts%4 == 0 {
			c16obs(r, g, t, false, &ops)
		}
	}
	c16obs(r, g, t, true, &ops)
	c16sweep(t, t.first()-1, t.latest()+1, &ops)
	ops = append(ops, []string{"x", "laudit"})
	c.Ops = ops
	c.Cfgs = c16Configs(r, tier, 2, avoid.flush)
	if avoid.pruneOnly { // one of the two configurations on MemDB with the smallest threshold
		c.Cfgs[0] = strings.Replace(strings.Replace(c.Cfgs[0], "backend="+cfgExtra(c.Cfgs[0], "backend", ""), "backend=memdb", 1),
			"flush="+cfgExtra(c.Cfgs[0], "flush", ""), "flush=200", 1)
	}
	return c
}

// ---------------------------------------------------------------------------------------------
// runner
// ---------------------------------------------------------------------------------------------

func legacygenPath() string {
	if p := os.Getenv("VERIF_LEGACYGEN"); p != "" {
		return p
	}
	return "/verif/build/legacygen"
}

func cfgExtra(cfgstr, name, def string) string {
	for _, f := range strings.Split(cfgstr, ",") {
		if strings.HasPrefix(f, name+"=") {
			return f[len(name)+1:]
		}
	}
	return def
}

// legacyReport is what the legacy library said about the versions it left behind.
type legacyReport struct {
	versions []int64
	root     map[int64]string // hex
	dump     map[int64]string // "k=v,k=v" ("" when empty)
}

func splitLegacy(c Case) (legacyOps, newOps [][]string) {
	for i, op := range c.Ops {
		if op[0] == "legacyend" {
			return c.Ops[:i], c.Ops[i+1:]
		}
	}
	return nil, c.Ops
}

// runLegacyPrefix executes the legacy phase of the case with the legacy library in a fresh
// directory, opens the result with the current library and returns the system together with
// the trace lines of the legacy phase (the last one is the legacyend line).
func runLegacyPrefix(c Case, cfgstr string) (*Sys, []string, error) {
	legacyOps, _ := splitLegacy(c)
	dir, err := os.MkdirTemp("", "verif-legacy-")
	if err != nil {
		return nil, nil, err
	}
	cleanup := func() { _ = os.RemoveAll(dir) }

	// (a) the ops file; a prune is a run of ascending single-version deletions
	var script bytes.Buffer
	type pending struct {
		op   []string
		outs int // number of legacygen output lines that belong to it
	}
	var plan []pending
	saved, firstLeft := int64(0), int64(1)
	for _, op := range legacyOps {
		switch op[0] {
		case "set", "rm":
			fmt.Fprintln(&script, strings.Join(op, " "))
			plan = append(plan, pending{op, 1})
		case "save":
			fmt.Fprintln(&script, "save")
			saved++
			plan = append(plan, pending{op, 1})
		case "ldel":
			fmt.Fprintf(&script, "delete %d\n", atoi(op[1]))
			plan = append(plan, pending{op, 1})
		case "prune":
			to := atoi(op[1])
			k := 0
			for v := firstLeft; v <= to && v <= saved; v++ {
				fmt.Fprintf(&script, "delete %d\n", v)
				k++
			}
			if to >= firstLeft {
				firstLeft = to + 1
			}
			plan = append(plan, pending{op, k})
		default:
			cleanup()
			return nil, nil, fmt.Errorf("operation %q is not available in the legacy phase", op[0])
		}
	}
	opsFile := filepath.Join(dir, "legacy.ops")
	if err := os.WriteFile(opsFile, script.Bytes(), 0o644); err != nil {
		cleanup()
		return nil, nil, err
	}
	cmd := exec.Command(legacygenPath(), dir, opsFile, "fast="+cfgExtra(cfgstr, "lfast", "true"), "cache="+cfgExtra(cfgstr, "lcache", "100"))
	var stderr bytes.Buffer
	cmd.Stderr = &stderr
	outb, err := cmd.Output()
	if err != nil {
		cleanup()
		return nil, nil, fmt.Errorf("legacygen: %v: %s", err, firstLine(stderr.String()))
	}
	_ = os.Remove(opsFile)
	out := strings.Split(strings.TrimRight(string(outb), "\n"), "\n")

	// (b) the legacy phase as trace lines carrying the legacy library's answers
	var lines []string
	pos := 0
	next := func() []string {
		if pos >= len(out) {
			return []string{"?"}
		}
		f := strings.Fields(out[pos])
		pos++
		return f
	}
	hexOrEmpty := func(s string) string { // legacygen prints "." for empty
		if s == "." {
			return "b:"
		}
		if s == "nil" {
			return "nil"
		}
		return "b:" + s
	}
	for _, p := range plan {
		res := "err"
		switch p.op[0] {
		case "set":
			f := next()
			if len(f) == 2 && f[0] == "set" {
				res = f[1]
			}
		case "rm":
			f := next()
			if len(f) == 3 && f[0] == "rm" {
				res = rPair(hexOrEmpty(f[1]), f[2])
			}
		case "save":
			f := next()
			if len(f) == 3 && f[0] == "save" && f[1] != "err" {
				res = rPair("b:"+f[2], "i:"+f[1])
			}
		case "ldel":
			f := next()
			if len(f) == 3 && f[0] == "delete" && f[2] == "ok" {
				res = "ok"
			}
		case "prune":
			res = "ok"
			for i := 0; i < p.outs; i++ {
				f := next()
				if len(f) != 3 || f[0] != "delete" || f[2] != "ok" {
					res = "err"
				}
			}
		}
		lines = append(lines, strings.Join(p.op, " ")+" => "+res)
	}
	rep := legacyReport{root: map[int64]string{}, dump: map[int64]string{}}
	for pos < len(out) {
		f := next()
		switch {
		case len(f) == 2 && f[0] == "versions":
			for _, s := range strings.Split(f[1], ",") {
				rep.versions = append(rep.versions, atoi(s))
			}
		case len(f) == 1 && f[0] == "versions":
		case len(f) == 3 && f[0] == "root":
			rep.root[atoi(f[1])] = f[2]
		case len(f) == 3 && f[0] == "dump":
			if f[2] == "-" {
				rep.dump[atoi(f[1])] = ""
			} else {
				rep.dump[atoi(f[1])] = f[2]
			}
		default:
			cleanup()
			return nil, nil, fmt.Errorf("legacygen: unexpected output line %q", strings.Join(f, " "))
		}
	}

	// (d) the current library on the same data
	cfg := parseConfig(cfgstr, -1)
	ldb, err := dbm.NewGoLevelDB("legacy", dir)
	if err != nil {
		cleanup()
		return nil, nil, err
	}
	var sys *Sys
	if cfg.Backend == "leveldb" {
		sys = &Sys{cfg: cfg, fastNow: cfg.Fast, dir: dir, base: ldb, db: ldb}
		if cfg.Wrap {
			sys.hooks = &hooks{}
			sys.db = &wrapDB{inner: sys.db, h: sys.hooks}
		}
	} else {
		// every pair of the legacy database is copied below the configured backend
		sys, err = newSys(cfg)
		if err != nil {
			_ = ldb.Close()
			cleanup()
			return nil, nil, err
		}
		it, err := ldb.Iterator(nil, nil)
		if err == nil {
			for ; it.Valid(); it.Next() {
				if err = sys.db.Set(append([]byte{}, it.Key()...), append([]byte{}, it.Value()...)); err != nil {
					break
				}
			}
			_ = it.Close()
		}
		_ = ldb.Close()
		cleanup()
		if err != nil {
			sys.close()
			return nil, nil, err
		}
		if sys.hooks != nil {
			*sys.hooks = hooks{}
		}
	}
	if err := sys.open(); err != nil {
		sys.close()
		return nil, lines, fmt.Errorf("open of the legacy database failed: %v", err)
	}
	// (c) legacyend: ok iff the current library reports exactly what the legacy library reported
	lines = append(lines, "legacyend => "+sys.compareLegacy(rep))
	return sys, lines, nil
}

// compareLegacy is the direct (model-free) comparison of every legacy version: availability,
// root hash and contents as the legacy library reported them.
func (s *Sys) compareLegacy(rep legacyReport) string {
	return safely(func() string {
		var diffs []string
		av := s.tree.AvailableVersions()
		got := make([]int64, len(av))
		for i, v := range av {
			got[i] = int64(v)
		}
		if rInts(got) != rInts(rep.versions) {
			diffs = append(diffs, "avail:"+rInts(got)+"/"+rInts(rep.versions))
		}
		for _, v := range rep.versions {
			if !s.tree.VersionExists(v) {
				diffs = append(diffs, fmt.Sprintf("v%d:vexists", v))
			}
			imm, err := s.tree.GetImmutable(v)
			if err != nil {
				diffs = append(diffs, fmt.Sprintf("v%d:getimmutable", v))
				continue
			}
			if h := hex.EncodeToString(imm.Hash()); h != rep.root[v] {
				diffs = append(diffs, fmt.Sprintf("v%d:hash:%s/%s", v, h, rep.root[v]))
			}
			var kvs []string
			_, err = imm.Iterate(func(k, val []byte) bool {
				kvs = append(kvs, hex.EncodeToString(k)+"="+hex.EncodeToString(val))
				return false
			})
			if err != nil || strings.Join(kvs, ",") != rep.dump[v] {
				diffs = append(diffs, fmt.Sprintf("v%d:contents", v))
			}
		}
		if len(diffs) == 0 {
			return "ok"
		}
		return "diff:" + strings.ReplaceAll(strings.Join(diffs, ";"), " ", "_")
	})
}

// runM1L: legacy prefix, a full observation of every legacy version, then the new phase.
// The lines are m1 lines (the driver replays them on the m1 machine).
func runM1L(w *bufio.Writer, c Case, cs string, stats map[string]int) {
	sys, lines, err := runLegacyPrefix(c, cs)
	for _, l := range lines {
		fmt.Fprintln(w, l)
		stats["op:legacy-"+strings.Fields(l)[0]]++
	}
	if err != nil {
		fmt.Fprintf(w, "# legacy prefix failed: %v\n", firstLine(err.Error()))
		fmt.Fprintln(w, "legacyend => err")
		stats["err:legacyend"]++
		return
	}
	defer sys.close()
	// the legacy key space exactly as the legacy library left it (nothing of it has been touched
	// by the new library yet): compared with the model of that library's writer (LegacyStore.v)
	fmt.Fprintf(w, "x lraw => %s\n", sys.rawLegacy())
	emit := func(shown, op []string) {
		res := sys.Exec(op)
		stats["op:"+shown[0]]++
		if strings.HasPrefix(res, "err") {
			stats["err:"+shown[0]]++
		}
		fmt.Fprintf(w, "%s => %s\n", strings.Join(shown, " "), res)
	}
	do := func(op ...string) { emit(op, op) }

	// The legacy process may have exited with uncommitted writes: nothing of them is on disk.
	// The model still holds them in its working tree, a reopen discards them there as well.
	legacyOps, newOps := splitLegacy(c)
	for i := len(legacyOps) - 1; i >= 0 && legacyOps[i][0] != "save"; i-- {
		if legacyOps[i][0] == "set" || legacyOps[i][0] == "rm" {
			do("reopen")
			break
		}
	}

	// contents and root hash of every version number up to the legacy latest (the deleted ones
	// must be absent), through the same reads the model answers
	n := atoi(paramOf(c, "legacy", "0"))
	do("avail")
	do("latest")
	do("wver")
	do("hash")
	do("whash")
	do("r", "w", "iter", "-", "-", "0", "1")
	do("r", "w", "size")
	do("r", "w", "height")
	for v := int64(1); v <= n+1; v++ {
		tg := "v" + strconv.FormatInt(v, 10)
		do("vexists", strconv.FormatInt(v, 10))
		do("r", tg, "iter", "-", "-", "0", "1")
		do("r", tg, "hash")
		do("r", tg, "size")
		do("r", tg, "height")
	}

	for _, op := range newOps {
		switch op[0] {
		case "lprune":
			emit(op, []string{"prune", op[1]})
		case "audit": // the raw layout of legacy nodes is not the model's
			continue
		case "x": // harness-side check, the model answers ok
			res, info := sys.auditLegacy()
			stats["op:x-laudit"]++
			if res != "ok" {
				stats["err:x-laudit"]++
			}
			fmt.Fprintf(w, "# laudit %s\n", info)
			fmt.Fprintf(w, "%s => %s\n", strings.Join(op, " "), res)
			// and the legacy key space itself against LegacyStore (the model carries it through
			// the new library's rollbacks and deletions)
			fmt.Fprintf(w, "x lraw => %s\n", sys.rawLegacy())
		default:
			emit(op, op)
		}
	}
}

// ---------------------------------------------------------------------------------------------
// raw audit of the legacy key space: n<hash> nodes, o<to><from><hash> orphan records, r<version> roots
// ---------------------------------------------------------------------------------------------

// legacyChildren decodes a legacy node body (height, size, version, key, then value | left
// hash, right hash) and returns the child hashes of an inner node.
func legacyChildren(buf []byte) ([][]byte, error) {
	h, n, err := rdVarint(buf)
	if err != nil {
		return nil, err
	}
	buf = buf[n:]
	for i := 0; i < 2; i++ { // size, version
		_, n, err := rdVarint(buf)
		if err != nil {
			return nil, err
		}
		buf = buf[n:]
	}
	_, n, err = rdBytes(buf) // key
	if err != nil {
		return nil, err
	}
	buf = buf[n:]
	if h == 0 {
		_, _, err := rdBytes(buf)
		return nil, err
	}
	l, n, err := rdBytes(buf)
	if err != nil {
		return nil, err
	}
	r, _, err := rdBytes(buf[n:])
	if err != nil {
		return nil, err
	}
	return [][]byte{l, r}, nil
}

// legacyLeafHash: sha256(varint height 0, varint size 1, varint version, key, sha256(value))
func legacyLeafHash(version int64, key, val []byte) []byte {
	var b []byte
	b = binary.AppendVarint(b, 0)
	b = binary.AppendVarint(b, 1)
	b = binary.AppendVarint(b, version)
	b = binary.AppendUvarint(b, uint64(len(key)))
	b = append(b, key...)
	vh := sha256.Sum256(val)
	b = binary.AppendUvarint(b, uint64(len(vh)))
	b = append(b, vh[:]...)
	h := sha256.Sum256(b)
	return h[:]
}

// auditLegacy checks the legacy key space against what the retained versions reference.
//   - dangling: a legacy node referenced from a legacy root, a legacy node or a new-format node, but absent
//   - garbage:  a stored legacy node that nothing references
//   - once no legacy root is left: no orphan record and no unreferenced legacy node may remain
//
// The result is "ok" unless something dangles or legacy records outlive the legacy versions;
// the info string always carries the counts.
func (s *Sys) auditLegacy() (string, string) {
	it, err := s.db.Iterator(nil, nil)
	if err != nil {
		return "err", "iterator"
	}
	defer it.Close()
	nodes := map[string][]byte{}
	rekeyed := map[string]bool{} // hashes of new-format nodes stored under (version, 0)
	var starts [][]byte
	orphans, roots, bad := 0, 0, 0
	for ; it.Valid(); it.Next() {
		k, val := it.Key(), it.Value()
		if len(k) == 0 {
			continue
		}
		switch {
		case k[0] == 'n' && len(k) == 33:
			nodes[string(k[1:])] = append([]byte{}, val...)
		case k[0] == 'o':
			orphans++
		case k[0] == 'r' && len(k) == 9:
			roots++
			if len(val) > 0 {
				starts = append(starts, append([]byte{}, val...))
			}
		case k[0] == 's' && len(k) == 13 && len(val) > 0 && val[0] != 's':
			body, err := decodeNodeBody(val)
			if err != nil {
				bad++
				continue
			}
			f := strings.Split(body, ",")
			if binary.BigEndian.Uint32(k[9:13]) == 0 {
				// a legacy root that a commit without writes referred to is rewritten under
				// (version,0); its n<hash> copy is dropped when that node is pruned itself
				if f[0] == "I" {
					hb, _ := hex.DecodeString(f[4])
					rekeyed[string(hb)] = true
				} else {
					key, _ := hex.DecodeString(f[1])
					val, _ := hex.DecodeString(f[2])
					rekeyed[string(legacyLeafHash(int64(binary.BigEndian.Uint64(k[1:9])), key, val))] = true
				}
			}
			if f[0] == "I" {
				for _, c := range f[5:] {
					if strings.HasPrefix(c, "h") {
						hb, _ := hex.DecodeString(c[1:])
						starts = append(starts, hb)
					}
				}
			}
		}
	}
	reach := map[string]bool{}
	dangling := 0
	for len(starts) > 0 {
		h := starts[len(starts)-1]
		starts = starts[:len(starts)-1]
		if reach[string(h)] {
			continue
		}
		reach[string(h)] = true
		body, ok := nodes[string(h)]
		if !ok {
			dangling++
			continue
		}
		cs, err := legacyChildren(body)
		if err != nil {
			bad++
			continue
		}
		starts = append(starts, cs...)
	}
	garbage, copies := 0, 0
	for h := range nodes {
		if !reach[h] {
			if rekeyed[h] {
				copies++
			} else {
				garbage++
			}
		}
	}
	info := fmt.Sprintf("roots=%d nodes=%d orphanrecs=%d garbage=%d copies=%d dangling=%d bad=%d", roots, len(nodes), orphans, garbage, copies, dangling, bad)
	if dangling > 0 || bad > 0 || (roots == 0 && (orphans > 0 || garbage > 0)) {
		return "la(" + strings.ReplaceAll(info, " ", ",") + ")", info
	}
	return "ok", info
}

// rawLegacy lists the legacy key space: node hashes (n<hash>), orphan records
// (o<to><from><hash>) and root records (r<version> -> hash), each sorted:
// lraw(n=<hash>,..;o=<to>.<from>.<hash>,..;r=<version>.<hash>,..)
func (s *Sys) rawLegacy() string {
	it, err := s.db.Iterator(nil, nil)
	if err != nil {
		return "err"
	}
	defer it.Close()
	var ns, os, rs []string
	for ; it.Valid(); it.Next() {
		k := it.Key()
		switch {
		case len(k) == 33 && k[0] == 'n':
			ns = append(ns, hex.EncodeToString(k[1:]))
		case len(k) == 49 && k[0] == 'o':
			os = append(os, fmt.Sprintf("%d.%d.%s", int64(binary.BigEndian.Uint64(k[1:9])), int64(binary.BigEndian.Uint64(k[9:17])), hex.EncodeToString(k[17:])))
		case len(k) == 9 && k[0] == 'r':
			rs = append(rs, fmt.Sprintf("%d.%s", int64(binary.BigEndian.Uint64(k[1:9])), hex.EncodeToString(it.Value())))
		}
	}
	sort.Strings(ns)
	sort.Strings(os)
	sort.Strings(rs)
	return "lraw(n=" + strings.Join(ns, ",") + ";o=" + strings.Join(os, ",") + ";r=" + strings.Join(rs, ",") + ")"
}
