package main

import (
	"bufio"
	"encoding/hex"
	"errors"
	"fmt"
	"math/rand"
	"os"
	"strings"

	corestore "cosmossdk.io/core/store"
	dbm "github.com/cosmos/iavl/db"
)

// ---- C18: the bundled backends against the sorted-map contract ----

func kvErr(err error) string {
	switch {
	case err == nil:
		return "ok"
	case strings.Contains(err.Error(), "key cannot be empty"), strings.Contains(err.Error(), "key is empty"):
		return "err:key"
	case strings.Contains(err.Error(), "value cannot be nil"), strings.Contains(err.Error(), "value is nil"):
		return "err:val"
	case strings.Contains(err.Error(), "batch has been written or closed"), strings.Contains(err.Error(), "batch is nil"):
		return "err:closed"
	}
	return "err:other:" + firstLine(err.Error())
}

func kvPairs(it corestore.Iterator, err error) string {
	if err != nil {
		return kvErr(err)
	}
	defer it.Close()
	var out []kv
	for ; it.Valid(); it.Next() {
		out = append(out, kv{append([]byte{}, it.Key()...), append([]byte{}, it.Value()...)})
		if len(out) > 100000 {
			return "runaway"
		}
	}
	if it.Error() != nil {
		return "err:iter"
	}
	return rKvs(out)
}

func parseBops(tok string) [][]string {
	if tok == "." {
		return nil
	}
	var out [][]string
	for _, p := range strings.Split(tok, ",") {
		out = append(out, strings.Split(p, ":"))
	}
	return out
}

func runBops(b corestore.Batch, ops [][]string, res *[]string) {
	for _, o := range ops {
		var err error
		if o[0] == "s" {
			err = b.Set(unhx(o[1]), unhx(o[2]))
		} else {
			err = b.Delete(unhx(o[1]))
		}
		*res = append(*res, kvErr(err))
	}
}

func execKV(db corestore.KVStoreWithBatch, toks []string) string {
	return safely(func() string {
		switch toks[0] {
		case "get":
			v, err := db.Get(unhx(toks[1]))
			if err != nil {
				return kvErr(err)
			}
			return rBytes(v)
		case "has":
			b, err := db.Has(unhx(toks[1]))
			if err != nil {
				return kvErr(err)
			}
			return rBool(b)
		case "set":
			return kvErr(db.Set(unhx(toks[1]), unhx(toks[2])))
		case "del":
			return kvErr(db.Delete(unhx(toks[1])))
		case "iter":
			return kvPairs(db.Iterator(unhx(toks[1]), unhx(toks[2])))
		case "riter":
			return kvPairs(db.ReverseIterator(unhx(toks[1]), unhx(toks[2])))
		case "batch":
			b := db.NewBatch()
			var res []string
			runBops(b, parseBops(toks[1]), &res)
			if toks[2] == "w" {
				res = append(res, kvErr(b.Write()))
			} else {
				res = append(res, kvErr(b.Close()))
			}
			runBops(b, parseBops(toks[3]), &res)
			res = append(res, kvErr(b.Write()))
			_ = b.Close()
			return "bt[" + strings.Join(res, ",") + "]"
		}
		return "badop"
	})
}

func runKV(w *bufio.Writer, c Case, cs string, stats map[string]int) {
	backend := paramOf(c, "backend", "memdb")
	var base corestore.KVStoreWithBatch
	dir := ""
	if strings.Contains(backend, "leveldb") {
		d, err := os.MkdirTemp("", "verif-kv-")
		if err != nil {
			fmt.Fprintf(w, "# mkdirtemp: %v\n", err)
			return
		}
		dir = d
		ldb, err := dbm.NewGoLevelDB("t", d)
		if err != nil {
			fmt.Fprintf(w, "# leveldb: %v\n", err)
			return
		}
		base = ldb
	} else {
		base = dbm.NewMemDB()
	}
	defer func() {
		_ = base.Close()
		if dir != "" {
			_ = os.RemoveAll(dir)
		}
	}()
	// foreign keys below the namespace
	if seed := paramOf(c, "seed", "."); seed != "." {
		for _, p := range strings.Split(seed, ",") {
			kvp := strings.SplitN(p, "=", 2)
			k, _ := hex.DecodeString(kvp[0])
			v, _ := hex.DecodeString(kvp[1])
			_ = base.Set(k, v)
		}
	}
	var db corestore.KVStoreWithBatch = base
	if strings.HasPrefix(backend, "prefix") {
		p, err := hex.DecodeString(paramOf(c, "prefix", "73"))
		if err != nil {
			p = []byte("s")
		}
		// the caller's prefix slice may have spare capacity (every second case): a wrapper that
		// appends to it without copying would let later keys overwrite earlier ones (seed C18f)
		kvPrefixToggle = !kvPrefixToggle
		if kvPrefixToggle {
			buf := make([]byte, len(p), len(p)+64)
			copy(buf, p)
			p = buf
		}
		db = dbm.NewPrefixDB(base, p)
	}
	for _, op := range c.Ops {
		res := execKV(db, op)
		stats["op:"+op[0]]++
		if strings.HasPrefix(res, "err") {
			stats["err:"+op[0]]++
		}
		fmt.Fprintf(w, "%s => %s\n", strings.Join(op, " "), res)
	}
	// the whole underlying store at the end: nothing outside the namespace was touched
	fmt.Fprintf(w, "base => %s\n", kvPairs(base.Iterator(nil, nil)))
}

var _ = errors.New

var kvPrefixToggle bool

// generator
var kvBytes = []byte{0x00, 0x61, 0xff}

func kvKey(r *rand.Rand) []byte {
	n := 1 + r.Intn(3)
	if r.Intn(12) == 0 {
		n = 0
	}
	b := make([]byte, n)
	for i := range b {
		b[i] = kvBytes[r.Intn(3)]
	}
	return b
}

func kvBound(r *rand.Rand) string {
	switch r.Intn(8) {
	case 0, 1:
		return "-"
	case 2:
		if r.Intn(4) == 0 {
			return "."
		}
		return "-"
	}
	k := kvKey(r)
	if len(k) == 0 {
		return "-"
	}
	return hx(k)
}

func kvKeyTok(r *rand.Rand) string {
	k := kvKey(r)
	if len(k) == 0 {
		if r.Intn(2) == 0 {
			return "-"
		}
		return "."
	}
	return hx(k)
}

func kvValTok(r *rand.Rand) string {
	switch r.Intn(10) {
	case 0:
		return "-"
	case 1:
		return "."
	}
	return hx([]byte{byte('0' + r.Intn(10)), kvBytes[r.Intn(3)]})
}

func kvBops(r *rand.Rand) string {
	n := r.Intn(4)
	if n == 0 {
		return "."
	}
	var ps []string
	for i := 0; i < n; i++ {
		if r.Intn(3) == 0 {
			ps = append(ps, "d:"+kvKeyTok(r))
		} else {
			ps = append(ps, "s:"+kvKeyTok(r)+":"+kvValTok(r))
		}
	}
	return strings.Join(ps, ",")
}

func genKV(r *rand.Rand, tier, id string) Case {
	backends := []string{"memdb", "leveldb", "prefixmem", "prefixleveldb"}
	prefixes := []string{"73", "73ff", "73ff00", "ffff", "73ffff", "61", "00"}
	c := Case{ID: id, Kind: "kv", Cfgs: []string{""}}
	be := backends[r.Intn(len(backends))]
	c.Params = []string{"backend=" + be}
	if strings.HasPrefix(be, "prefix") {
		p := prefixes[r.Intn(len(prefixes))]
		c.Params = append(c.Params, "prefix="+p)
		// foreign keys around the namespace: the bare prefix, siblings, the incremented prefix
		pb, _ := hex.DecodeString(p)
		var seeds []string
		add := func(k []byte) {
			if len(k) > 0 {
				seeds = append(seeds, hex.EncodeToString(k)+"=7a")
			}
		}
		add(pb)
		add(pb[:len(pb)-1])
		add(append(append([]byte{}, pb[:len(pb)-1]...), pb[len(pb)-1]+1))
		add(append(append([]byte{}, pb[:len(pb)-1]...), pb[len(pb)-1]+1, 0))
		add([]byte{0x74})
		add([]byte{0x74, 0x00})
		add([]byte{0xff})
		dedup := map[string]bool{}
		var out []string
		for _, s := range seeds {
			if !dedup[s] {
				dedup[s] = true
				out = append(out, s)
			}
		}
		c.Params = append(c.Params, "seed="+strings.Join(out, ","))
	}
	n := 20 + r.Intn(40)
	for i := 0; i < n; i++ {
		switch x := r.Intn(20); {
		case x < 6:
			c.Ops = append(c.Ops, []string{"set", kvKeyTok(r), kvValTok(r)})
		case x < 8:
			c.Ops = append(c.Ops, []string{"del", kvKeyTok(r)})
		case x < 10:
			c.Ops = append(c.Ops, []string{"get", kvKeyTok(r)})
		case x < 11:
			c.Ops = append(c.Ops, []string{"has", kvKeyTok(r)})
		case x < 14:
			c.Ops = append(c.Ops, []string{"iter", kvBound(r), kvBound(r)})
		case x < 17:
			c.Ops = append(c.Ops, []string{"riter", kvBound(r), kvBound(r)})
		default:
			mode := "w"
			if r.Intn(4) == 0 {
				mode = "c"
			}
			c.Ops = append(c.Ops, []string{"batch", kvBops(r), mode, kvBops(r)})
		}
	}
	c.Ops = append(c.Ops, []string{"iter", "-", "-"}, []string{"riter", "-", "-"})
	return c
}

func init() {
	runners["kv"] = runKV
	generators["C18"] = genKV
}
