package main

import (
	"bufio"
	"encoding/hex"
	"flag"
	"fmt"
	"os"
	"strings"
)

// loaddb: the backward direction of the format check (C13). For every case it takes the database
// image that the extracted Coq ENCODERS produced from the model state (driver --emit-db), writes it
// into a fresh backend, opens it with the library and observes every version; the resulting trace
// is validated by the driver against the model (the case's own ops are passed through unchecked so
// that the model reaches the same state).
func cmdLoadDB(args []string) int {
	fs := flag.NewFlagSet("loaddb", flag.ExitOnError)
	dbFile := fs.String("db", "", "file with DB lines from driver --emit-db")
	_ = fs.Parse(args)
	images := map[string]string{}
	f, err := os.Open(*dbFile)
	if err != nil {
		fmt.Fprintln(os.Stderr, err)
		return 2
	}
	sc := bufio.NewScanner(f)
	sc.Buffer(make([]byte, 1<<20), 1<<28)
	for sc.Scan() {
		l := sc.Text()
		if strings.HasPrefix(l, "DB ") {
			p := strings.SplitN(l, " ", 3)
			if len(p) == 3 {
				images[p[1]] = p[2]
			} else if len(p) == 2 {
				images[p[1]] = ""
			}
		}
	}
	f.Close()
	in := bufio.NewScanner(os.Stdin)
	in.Buffer(make([]byte, 1<<20), 1<<28)
	cases := readCases(in)
	out := bufio.NewWriterSize(os.Stdout, 1<<20)
	defer out.Flush()
	for _, c := range cases {
		img, ok := images[c.ID]
		if !ok || c.Kind != "m1" {
			continue
		}
		for ci, fast := range []bool{true, false} {
			iv := int64(-1)
			if s := paramOf(c, "iv", "-"); s != "-" {
				iv = atoi(s)
			}
			cfg := Config{Cache: 100, Fast: fast, Flush: 100000, Initial: iv, Backend: "memdb"}
			if ci == 1 {
				cfg.Backend = "leveldb"
			}
			sys, err := newSys(cfg)
			if err != nil {
				continue
			}
			if img != "" {
				for _, e := range strings.Split(img, ";") {
					kv := strings.SplitN(e, "=", 2)
					k, _ := hex.DecodeString(kv[0])
					v := []byte{}
					if len(kv) == 2 {
						v, _ = hex.DecodeString(kv[1])
					}
					_ = sys.db.Set(k, v)
				}
			}
			fmt.Fprintf(out, "C %s#db%d m1 %s cfg=%s\n", c.ID, ci, strings.Join(c.Params, " "), cfg.String())
			// bring the model to the case's final state: mutating ops, unchecked
			for _, op := range c.Ops {
				switch op[0] {
				case "set", "rm", "save", "rollback", "reopen", "reopenat", "load", "prune", "lvfo", "setnil", "savecs",
					"dvreload", "dvfrom", "wsave", "wprune", "wlvfo":
					// (every state-changing operation the C01 generator can emit: one that is left
					// out here leaves the model in another state than the image - a false alarm of
					// this check met when dvreload joined the profile)
					if op[0] == "reopen" && len(op) > 1 {
						op = op[:1]
					}
					if op[0] == "reopenat" {
						fmt.Fprintf(out, "reopen\nload %s\n", op[1])
						continue
					}
					fmt.Fprintln(out, strings.Join(op, " "))
				}
			}
			// the loaded database is the committed state: the model equivalent is a reopen
			fmt.Fprintln(out, "reopen")
			emit := func(op ...string) { fmt.Fprintf(out, "%s => %s\n", strings.Join(op, " "), sys.Exec(op)) }
			if err := sys.open(); err != nil {
				fmt.Fprintf(out, "x open => openerr:%s\n", firstLine(err.Error()))
				fmt.Fprintln(out, "E")
				sys.close()
				continue
			}
			emit("avail")
			emit("latest")
			for _, v := range sys.tree.AvailableVersions() {
				t := "v" + i64(int64(v))
				emit("r", t, "iter", "-", "-", "0", "1")
				emit("r", t, "iter", "-", "-", "0", "0")
				emit("r", t, "hash")
				emit("r", t, "size")
				emit("r", t, "height")
				emit("r", t, "export")
			}
			emit("r", "w", "iter", "-", "-", "0", "1")
			emit("r", "w", "iterr", "-", "-", "0", "1")
			emit("r", "w", "hash")
			emit("hash")
			emit("audit", "nodes")
			emit("audit", "fastvals")
			// the library can continue on top of the model-written database
			emit("set", "6b", "76")
			emit("set", "00ff", ".")
			emit("save")
			emit("r", "w", "iter", "-", "-", "0", "1")
			emit("audit", "nodes")
			fmt.Fprintln(out, "E")
			sys.close()
		}
	}
	return 0
}

func init() { commands["loaddb"] = cmdLoadDB }
