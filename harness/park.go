package main

import (
	"bytes"
	"flag"
	"fmt"
	"sort"
	"sync"
	"time"

	corestore "cosmossdk.io/core/store"
	"github.com/cosmos/iavl"
	dbm "github.com/cosmos/iavl/db"
)

// park: a reader stopped in the middle of a read while the writer deletes versions (C06).
//
// The stress run only meets the interleavings the scheduler happens to produce. Here the placement
// is deterministic: for every deletion bound n, every version v that the deletion retains and every
// k, a reader of version v (GetImmutable(v), Get / Has of keys, a full iteration) is parked right
// AFTER its k-th storage read returned, the writer runs DeleteVersionsTo(n) to completion on the
// same tree object, and the reader is released. The history contains versions committed without
// changes (shared roots: the deletion re-keys them), single-key and empty versions. Whatever k:
// the read must succeed and deliver exactly the contents recorded for v when it was committed.
// Every run uses a fresh copy of the database and a fresh tree object (node cache 0 and 1000).

type parkDB struct {
	corestore.KVStoreWithBatch
	mu     sync.Mutex
	mode   int // 0 idle, 1 counting the reader's reads, 2 the reader is parked / released
	count  int
	k      int
	parked chan struct{}
	resume chan struct{}
}

func (d *parkDB) tick() {
	d.mu.Lock()
	if d.mode != 1 {
		d.mu.Unlock()
		return
	}
	d.count++
	if d.count != d.k {
		d.mu.Unlock()
		return
	}
	d.mode = 2
	d.mu.Unlock()
	d.parked <- struct{}{}
	<-d.resume
}

func (d *parkDB) Get(key []byte) ([]byte, error) {
	v, err := d.KVStoreWithBatch.Get(key)
	d.tick()
	return v, err
}

func (d *parkDB) Has(key []byte) (bool, error) {
	v, err := d.KVStoreWithBatch.Has(key)
	d.tick()
	return v, err
}

func (d *parkDB) Iterator(s, e []byte) (corestore.Iterator, error) {
	it, err := d.KVStoreWithBatch.Iterator(s, e)
	d.tick()
	return it, err
}

func (d *parkDB) ReverseIterator(s, e []byte) (corestore.Iterator, error) {
	it, err := d.KVStoreWithBatch.ReverseIterator(s, e)
	d.tick()
	return it, err
}

func copyMem(src *dbm.MemDB) *dbm.MemDB {
	dst := dbm.NewMemDB()
	it, _ := src.Iterator(nil, nil)
	for ; it.Valid(); it.Next() {
		_ = dst.Set(append([]byte{}, it.Key()...), append([]byte{}, it.Value()...))
	}
	it.Close()
	return dst
}

func showKV(m map[string]string) string {
	ks := make([]string, 0, len(m))
	for k := range m {
		ks = append(ks, k)
	}
	sort.Strings(ks)
	var b bytes.Buffer
	for _, k := range ks {
		fmt.Fprintf(&b, "%s=%s,", k, m[k])
	}
	return b.String()
}

func cmdPark(args []string) int {
	fs := flag.NewFlagSet("park", flag.ExitOnError)
	maxK := fs.Int("maxk", 10, "largest read ordinal tried")
	_ = fs.Parse(args)
	// the history, with the contents of every version recorded at commit
	base := dbm.NewMemDB()
	contents := map[int64]map[string]string{}
	{
		t := iavl.NewMutableTree(base, 100, false, iavl.NewNopLogger())
		cur := map[string]string{}
		commit := func() int64 {
			_, v, err := t.SaveVersion()
			if err != nil {
				panic(err)
			}
			c := map[string]string{}
			for k, x := range cur {
				c[k] = x
			}
			contents[v] = c
			return v
		}
		set := func(k, v string) { _, _ = t.Set([]byte(k), []byte(v)); cur[k] = v }
		rm := func(k string) { _, _, _ = t.Remove([]byte(k)); delete(cur, k) }
		set("only", "1")
		commit() // 1: a single leaf is the root
		commit() // 2: unchanged (refers to the root of 1)
		for i := 0; i < 9; i++ {
			set(fmt.Sprintf("k%02d", i), fmt.Sprintf("a%d", i))
		}
		commit() // 3
		commit() // 4: unchanged
		commit() // 5: unchanged again (a chain of references)
		set("k03", "b3")
		rm("k05")
		commit() // 6
		commit() // 7: unchanged
		set("k10", "c10")
		commit() // 8
		_ = t.Close()
	}
	latest := int64(8)
	runs, parkedRuns, blocked := 0, 0, 0
	for _, cache := range []int{0, 1000} {
		for n := int64(1); n < latest; n++ {
			for v := n + 1; v <= latest; v++ {
				for k := 1; k <= *maxK; k++ {
					db := &parkDB{KVStoreWithBatch: copyMem(base), k: k, parked: make(chan struct{}, 1), resume: make(chan struct{}, 1)}
					t := iavl.NewMutableTree(db, cache, false, iavl.NewNopLogger())
					if _, err := t.Load(); err != nil {
						fmt.Println("PARK error", err)
						return 2
					}
					type outcome struct {
						err error
						got map[string]string
						has bool
					}
					done := make(chan outcome, 1)
					db.mu.Lock()
					db.mode, db.count = 1, 0
					db.mu.Unlock()
					go func() {
						o := outcome{got: map[string]string{}}
						im, err := t.GetImmutable(v)
						if err != nil {
							o.err = fmt.Errorf("GetImmutable(%d): %v", v, err)
							done <- o
							return
						}
						for key := range contents[v] {
							val, err := im.Get([]byte(key))
							if err != nil {
								o.err = fmt.Errorf("Get(%s): %v", key, err)
								done <- o
								return
							}
							if val != nil {
								o.got[key] = string(val)
							}
						}
						o.has, _ = im.Has([]byte("k05"))
						n := 0
						_, err = im.Iterate(func(_, _ []byte) bool { n++; return false })
						if err != nil {
							o.err = fmt.Errorf("Iterate: %v", err)
						} else if n != len(contents[v]) {
							o.err = fmt.Errorf("Iterate delivered %d pairs, version %d has %d", n, v, len(contents[v]))
						}
						done <- o
					}()
					var o outcome
					parked := false
					select {
					case <-db.parked:
						parked = true
						wdone := make(chan error, 1)
						go func() { wdone <- t.DeleteVersionsTo(n) }()
						var werr error
						select {
						case werr = <-wdone:
							db.resume <- struct{}{}
						case <-time.After(40 * time.Millisecond):
							// the reader was stopped while holding a lock of the library that the
							// deletion needs (a read inside GetNode): this placement cannot occur;
							// the reader goes first
							blocked++
							db.resume <- struct{}{}
							werr = <-wdone
						}
						if werr != nil {
							fmt.Printf("PARK viol cache=%d n=%d v=%d k=%d: DeleteVersionsTo: %v\n", cache, n, v, k, werr)
							return 1
						}
						o = <-done
					case o = <-done:
					}
					db.mu.Lock()
					db.mode = 0
					db.mu.Unlock()
					runs++
					if parked {
						parkedRuns++
					}
					_, wantHas := contents[v]["k05"]
					if o.err != nil || showKV(o.got) != showKV(contents[v]) || o.has != wantHas {
						fmt.Printf("PARK viol cache=%d n=%d v=%d k=%d parked=%v: err=%v got=%s want=%s\n", cache, n, v, k, parked, o.err, showKV(o.got), showKV(contents[v]))
						return 1
					}
					_ = t.Close()
					if !parked {
						break // the read needs fewer than k storage reads: every position has been tried
					}
				}
			}
		}
	}
	fmt.Printf("PARK ok runs=%d parked=%d placements-excluded-by-a-lock=%d\n", runs, parkedRuns, blocked)
	return 0
}

func init() { commands["park"] = cmdPark }
