package main

import (
	"bytes"
	"encoding/hex"
	"fmt"
	"strings"

	"github.com/cosmos/iavl"
	dbm "github.com/cosmos/iavl/db"
)

func csString(cs *iavl.ChangeSet) string {
	parts := make([]string, len(cs.Pairs))
	for i, p := range cs.Pairs {
		if p.Delete {
			parts[i] = hex.EncodeToString(p.Key) + "-"
		} else {
			parts[i] = hex.EncodeToString(p.Key) + "=" + hex.EncodeToString(p.Value)
		}
	}
	return strings.Join(parts, ",")
}

// execChanges: TraverseStateChanges(start, end) => cs[v:pairs|v:pairs...]
func (s *Sys) execChanges(start, end int64) string {
	var parts []string
	err := s.tree.TraverseStateChanges(start, end, func(version int64, cs *iavl.ChangeSet) error {
		parts = append(parts, fmt.Sprintf("%d:%s", version, csString(cs)))
		return nil
	})
	if err != nil {
		return "err"
	}
	return "cs[" + strings.Join(parts, "|") + "]"
}

func parsePairs(tok string) *iavl.ChangeSet {
	cs := &iavl.ChangeSet{}
	if tok == "." {
		return cs
	}
	for _, p := range strings.Split(tok, ",") {
		if strings.HasSuffix(p, "-") {
			k, _ := hex.DecodeString(p[:len(p)-1])
			cs.Pairs = append(cs.Pairs, &iavl.KVPair{Delete: true, Key: k})
		} else {
			kv := strings.SplitN(p, "=", 2)
			k, _ := hex.DecodeString(kv[0])
			v, _ := hex.DecodeString(kv[1])
			cs.Pairs = append(cs.Pairs, &iavl.KVPair{Key: k, Value: v})
		}
	}
	return cs
}

// execReplay extracts the change sets of all retained versions and replays them into an empty
// tree; compares contents of every version (and hashes when withHash).
func (s *Sys) execReplay(withHash bool) string {
	av := s.tree.AvailableVersions()
	if len(av) == 0 {
		return "ok"
	}
	first, latest := int64(av[0]), int64(av[len(av)-1])
	fresh := iavl.NewMutableTree(dbm.NewMemDB(), 100, false, iavl.NewNopLogger(), iavl.InitialVersionOption(uint64(first)))
	if _, err := fresh.Load(); err != nil {
		return "err-load"
	}
	res := "ok"
	err := s.tree.TraverseStateChanges(first, latest, func(version int64, cs *iavl.ChangeSet) error {
		if version == first && !withHash {
			// the predecessor is not retained: rebuild the first version from its full contents
			o, err := s.tree.GetImmutable(first)
			if err != nil {
				return err
			}
			full := &iavl.ChangeSet{}
			_, err = o.Iterate(func(k, v []byte) bool {
				full.Pairs = append(full.Pairs, &iavl.KVPair{Key: append([]byte{}, k...), Value: append([]byte{}, v...)})
				return false
			})
			if err != nil {
				return err
			}
			cs = full
		}
		v, err := fresh.SaveChangeSet(cs)
		if err != nil {
			res = fmt.Sprintf("savecs-err:%d", version)
			return nil
		}
		if v != version {
			res = fmt.Sprintf("version:%d!=%d", v, version)
			return nil
		}
		o, err := s.tree.GetImmutable(version)
		if err != nil {
			return err
		}
		n, err := fresh.GetImmutable(version)
		if err != nil {
			return err
		}
		a := collectIter(o.Iterator(nil, nil, true))
		b := collectIter(n.Iterator(nil, nil, true))
		if a != b && res == "ok" {
			res = fmt.Sprintf("contents:%d", version)
		}
		if withHash && !bytes.Equal(o.Hash(), n.Hash()) && res == "ok" {
			res = fmt.Sprintf("hash:%d", version)
		}
		return nil
	})
	if err != nil {
		return "err"
	}
	return res
}
