package main

import (
	"bufio"
	"flag"
	"fmt"
	"math/rand"
	"os"
	"strings"
	"time"
)

var profiles = map[string]Profile{
	"C01": {Name: "C01", MinOps: 15, MaxOps: 60, Keys: 10, EmptyVals: true, ObsEvery: 6,
		Initials: []int64{-1, -1, 1, 7, 1 << 40},
		W:        map[string]int{"set": 40, "rm": 18, "save": 12, "rollback": 3, "reopen": 4, "load": 3, "prune": 4, "lvfo": 5, "setnil": 2, "read": 10}},
	// C02: hashes with read-only calls sprinkled anywhere, initial versions, reopen/prune/rollback points
	"C02": {Name: "C02", MinOps: 15, MaxOps: 70, Keys: 12, EmptyVals: true, ObsEvery: 0, Touch: true,
		Initials: []int64{-1, 1, 7, 10, 1 << 40},
		W:        map[string]int{"set": 40, "rm": 15, "save": 14, "rollback": 3, "reopen": 4, "prune": 3, "lvfo": 2, "touch": 14, "whash": 8, "read": 6}},
	// C14: version bookkeeping, overwrites, loads of every kind
	"C14": {Name: "C14", MinOps: 12, MaxOps: 45, Keys: 5, EmptyVals: false, ObsEvery: 3,
		Initials: []int64{-1, -1, 1, 7, 1 << 40},
		W:        map[string]int{"set": 18, "rm": 10, "save": 22, "rollback": 3, "reopen": 8, "load": 8, "prune": 8, "lvfo": 4, "resave": 8, "pintest": 4, "dvfrom": 4, "reopenat": 3}},
	// C11: balance under ordered insertions and removals
	"C11": {Name: "C11", MinOps: 30, MaxOps: 150, Keys: 40, EmptyVals: false, ObsEvery: 25,
		W: map[string]int{"set": 60, "rm": 22, "save": 6, "reopen": 1, "costs": 4}},
	// C11tall: trees of height >= 9 (several hundred keys): the read-cost bounds of proofs of
	// absence only become tight there
	"C11tall": {Name: "C11tall", MinOps: 330, MaxOps: 700, Keys: 40, EmptyVals: false, ObsEvery: 0,
		W: map[string]int{"set": 95, "rm": 3, "save": 1, "costs": 1}},
	// C09: rollback / LoadVersionForOverwriting heavy
	"C09": {Name: "C09", MinOps: 15, MaxOps: 60, Keys: 8, EmptyVals: true, ObsEvery: 5, ToggleFast: true,
		Initials: []int64{-1, -1, 1, 7},
		W:        map[string]int{"set": 35, "rm": 14, "save": 16, "rollback": 8, "reopen": 4, "prune": 4, "lvfo": 9, "load": 2, "staleidx": 3, "dvfrom": 4}},
	// C04: pruning heavy, commits without writes, single-leaf roots
	"C04": {Name: "C04", MinOps: 15, MaxOps: 60, Keys: 6, EmptyVals: true, ObsEvery: 4,
		Initials: []int64{-1, -1, 1, 7},
		W:        map[string]int{"set": 25, "rm": 14, "save": 25, "rollback": 3, "reopen": 6, "prune": 14, "lvfo": 3, "pintest": 3}},
	// C04w: the same with recorded deletions (physical writes and flush positions against
	// PruneAlgo.prune_forest) under small flush thresholds
	"C04w": {Name: "C04w", MinOps: 15, MaxOps: 60, Keys: 6, EmptyVals: true, ObsEvery: 4, WPrune: true,
		Initials: []int64{-1, -1, 1, 7},
		W:        map[string]int{"set": 25, "rm": 14, "save": 25, "rollback": 3, "reopen": 6, "prune": 14, "lvfo": 6, "rekeychain": 5, "pintest": 3, "faultprune": 4}},
	// C07: the fast index against the tree walk, each reopen chooses index on/off
	"C07": {Name: "C07", MinOps: 15, MaxOps: 60, Keys: 8, EmptyVals: true, ObsEvery: 3, ToggleFast: true,
		Initials: []int64{-1, -1, 1, 7},
		W:        map[string]int{"set": 35, "rm": 16, "save": 14, "rollback": 5, "reopen": 10, "load": 5, "prune": 3, "lvfo": 4, "read": 10, "reopenat": 3, "staleidx": 3, "failedopen": 3, "dvfrom": 8}},
	// C03: ICS-23 proofs for every key of every kind of tree
	"C03": {Name: "C03", MinOps: 6, MaxOps: 40, Keys: 7, EmptyVals: false, NoEmptyKey: true, ObsEvery: 0,
		Initials: []int64{-1, -1, 1, 7, 1 << 40},
		W:        map[string]int{"set": 40, "rm": 16, "save": 14, "rollback": 2, "reopen": 3, "prune": 3, "proofs": 12}},
	"C03e": {Name: "C03e", MinOps: 6, MaxOps: 25, Keys: 5, EmptyVals: true, ObsEvery: 0,
		W: map[string]int{"set": 40, "rm": 10, "save": 14, "proofs": 12}},
	// C15: change sets: repeated keys inside a version, set-then-remove, identical rewrites, no-op versions
	"C15": {Name: "C15", MinOps: 12, MaxOps: 50, Keys: 6, EmptyVals: true, ObsEvery: 0,
		Initials: []int64{-1, -1, 1, 7},
		W:        map[string]int{"set": 40, "rm": 20, "save": 18, "rollback": 2, "reopen": 3, "prune": 3, "changes": 12, "savecs": 5, "replaycs": 3, "rekeychain": 3}},
	// C05: crash points of commits, deletions, rollbacks and index builds, small flush thresholds
	"C05": {Name: "C05", MinOps: 8, MaxOps: 30, Keys: 8, EmptyVals: true, ObsEvery: 0, ToggleFast: true,
		Initials: []int64{-1, -1, 7},
		W:        map[string]int{"set": 45, "rm": 15, "save": 2, "wsave": 5, "ctab": 6, "crashsave": 14, "crashprune": 6, "crashlvfo": 4, "crashreopen": 3, "rollback": 2, "reopen": 2}},
	// C17: storage faults at every call position
	"C17": {Name: "C17", MinOps: 8, MaxOps: 30, Keys: 8, EmptyVals: false, ObsEvery: 0,
		Initials: []int64{-1, -1, 7},
		W:        map[string]int{"set": 45, "rm": 15, "save": 6, "faults": 8, "faultsave": 8, "faultprune": 4, "faultlvfo": 4, "faultimport": 3, "faultreopen": 3, "rollback": 2, "reopen": 2}},
	// C10: export / import of any retained version (empty tree, single leaf, inherited root, larger)
	"C10": {Name: "C10", MinOps: 6, MaxOps: 45, Keys: 9, EmptyVals: true, ObsEvery: 0,
		Initials: []int64{-1, -1, 1, 7},
		W:        map[string]int{"set": 40, "rm": 16, "save": 16, "rollback": 2, "reopen": 2, "prune": 3, "expimp": 12}},
	// C08: iterators over every kind of tree state
	"C08": {Name: "C08", MinOps: 8, MaxOps: 40, Keys: 9, EmptyVals: true, ObsEvery: 0,
		W: map[string]int{"set": 40, "rm": 18, "save": 10, "rollback": 2, "reopen": 3, "iters": 25}},
}

// wrapped configurations (recording / counting / fault injection): MemDB below the wrapper
func wrapConfigs(r *rand.Rand, n int, flushes []int) []string {
	var out []string
	for i := 0; i < n; i++ {
		c := Config{Cache: []int{0, 3, 1000}[r.Intn(3)], Fast: r.Intn(2) == 0, Flush: flushes[r.Intn(len(flushes))],
			Backend: "memdb", Wrap: true}
		out = append(out, c.String())
	}
	return out
}

func configsFor(r *rand.Rand, tier string, n int) []string {
	caches := []int{0, 1, 3, 1000}
	flushes := []int{200, 400, 1000, 100000}
	backends := []string{"memdb", "memdb", "prefix", "leveldb", "prefixleveldb"}
	if tier == "quick" {
		backends = []string{"memdb", "memdb", "memdb", "prefix", "leveldb"}
	}
	var out []string
	for i := 0; i < n; i++ {
		c := Config{Cache: caches[r.Intn(len(caches))], Fast: r.Intn(2) == 0, Flush: flushes[r.Intn(len(flushes))],
			Sync: r.Intn(4) == 0, Backend: backends[r.Intn(len(backends))], IvLate: r.Intn(5) == 0}
		out = append(out, c.String())
	}
	return out
}

func writeCase(w *bufio.Writer, c Case) {
	fmt.Fprintf(w, "C %s %s %s cfgs=%s\n", c.ID, c.Kind, strings.Join(c.Params, " "), strings.Join(c.Cfgs, "|"))
	for _, op := range c.Ops {
		fmt.Fprintln(w, strings.Join(op, " "))
	}
	fmt.Fprintln(w, "E")
}

func readCases(rd *bufio.Scanner) []Case {
	var cases []Case
	var cur *Case
	for rd.Scan() {
		line := rd.Text()
		if line == "" || line[0] == '#' {
			continue
		}
		if strings.HasPrefix(line, "C ") {
			f := strings.Fields(line)
			c := Case{ID: f[1], Kind: f[2]}
			for _, p := range f[3:] {
				if strings.HasPrefix(p, "cfgs=") {
					c.Cfgs = strings.Split(p[5:], "|")
				} else {
					c.Params = append(c.Params, p)
				}
			}
			cases = append(cases, c)
			cur = &cases[len(cases)-1]
			continue
		}
		if line == "E" {
			cur = nil
			continue
		}
		if cur != nil {
			if i := strings.Index(line, " => "); i >= 0 {
				line = line[:i]
			}
			cur.Ops = append(cur.Ops, strings.Fields(line))
		}
	}
	return cases
}

func paramOf(c Case, name, def string) string {
	for _, p := range c.Params {
		if strings.HasPrefix(p, name+"=") {
			return p[len(name)+1:]
		}
	}
	return def
}

// runCase executes a case under each of its configurations and writes the trace.
func runCase(w *bufio.Writer, c Case, stats map[string]int) {
	cfgs := c.Cfgs
	if len(cfgs) == 0 {
		cfgs = []string{""}
	}
	for i, cs := range cfgs {
		fmt.Fprintf(w, "C %s#%d %s %s cfg=%s\n", c.ID, i, c.Kind, strings.Join(c.Params, " "), cs)
		switch c.Kind {
		case "m1":
			runM1(w, c, cs, stats)
		default:
			if f, ok := runners[c.Kind]; ok {
				f(w, c, cs, stats)
			} else {
				fmt.Fprintf(w, "# unknown kind %s\n", c.Kind)
			}
		}
		fmt.Fprintln(w, "E")
	}
}

var runners = map[string]func(w *bufio.Writer, c Case, cfg string, stats map[string]int){}

func runM1(w *bufio.Writer, c Case, cs string, stats map[string]int) {
	iv := int64(-1)
	if s := paramOf(c, "iv", "-"); s != "-" {
		iv = atoi(s)
	}
	sys, err := newSys(parseConfig(cs, iv))
	if err != nil {
		fmt.Fprintf(w, "# cannot create system: %v\n", err)
		return
	}
	defer sys.close()
	if err := sys.open(); err != nil {
		fmt.Fprintf(w, "# open failed: %v\n", err)
		return
	}
	for _, op := range c.Ops {
		res := execTimed(sys, op)
		if res == "hang" {
			// an operation that does not return within the time limit: report it and stop the
			// whole run (the goroutine cannot be cancelled and would keep burning a core)
			fmt.Fprintf(w, "%s => hang\nE\n", strings.Join(op, " "))
			w.Flush()
			os.Exit(3)
		}
		stats["op:"+op[0]]++
		if strings.HasPrefix(res, "err") {
			stats["err:"+op[0]]++
		}
		fmt.Fprintf(w, "%s => %s\n", strings.Join(op, " "), res)
	}
	for k, v := range sys.cstats {
		stats[k] += v
	}
}

func main() {
	if len(os.Args) < 2 {
		fmt.Fprintln(os.Stderr, "usage: harness gen|run ...")
		os.Exit(2)
	}
	cmd := os.Args[1]
	if f, ok := commands[cmd]; ok {
		os.Exit(f(os.Args[2:]))
	}
	fs := flag.NewFlagSet(cmd, flag.ExitOnError)
	profile := fs.String("profile", "C01", "generator profile")
	seed := fs.Int64("seed", 1, "PRNG seed")
	n := fs.Int("n", 10, "number of cases")
	tier := fs.String("tier", "quick", "quick|thorough")
	ncfg := fs.Int("ncfg", 2, "configurations per case")
	statsFile := fs.String("stats", "", "write op/err histogram here")
	_ = fs.Parse(os.Args[2:])
	out := bufio.NewWriterSize(os.Stdout, 1<<20)
	defer out.Flush()
	switch cmd {
	case "gen":
		r := rand.New(rand.NewSource(*seed))
		gf, ok := generators[*profile]
		if !ok {
			fmt.Fprintln(os.Stderr, "unknown profile", *profile)
			os.Exit(2)
		}
		for i := 0; i < *n; i++ {
			c := gf(r, *tier, fmt.Sprintf("%s-%d-%d", *profile, *seed, i))
			if c.Cfgs == nil {
				c.Cfgs = configsFor(r, *tier, *ncfg)
			}
			writeCase(out, c)
		}
	case "run":
		sc := bufio.NewScanner(os.Stdin)
		sc.Buffer(make([]byte, 1<<20), 1<<28)
		cases := readCases(sc)
		stats := map[string]int{}
		t0 := time.Now()
		for _, c := range cases {
			runCase(out, c, stats)
		}
		if *statsFile != "" {
			f, _ := os.Create(*statsFile)
			fmt.Fprintf(f, "{\"cases\":%d,\"wall_s\":%.2f", len(cases), time.Since(t0).Seconds())
			for _, k := range sortedKeys(stats) {
				fmt.Fprintf(f, ",%q:%d", k, stats[k])
			}
			fmt.Fprintln(f, "}")
			f.Close()
		}
	default:
		if f, ok := commands[cmd]; ok {
			os.Exit(f(os.Args[2:]))
		}
		fmt.Fprintln(os.Stderr, "unknown command", cmd)
		os.Exit(2)
	}
}

var commands = map[string]func(args []string) int{}

func m1gen(name string) func(r *rand.Rand, tier, id string) Case {
	return func(r *rand.Rand, tier, id string) Case {
		p := profiles[name]
		if tier == "thorough" && r.Intn(3) == 0 {
			p.Keys, p.MaxOps = p.Keys*5, p.MaxOps*4
		}
		if name == "C11" {
			p.Order = []string{"asc", "desc", "alt", ""}[r.Intn(4)]
		}
		if name == "C11tall" {
			p.Order = []string{"asc", "desc", "alt"}[r.Intn(3)]
		}
		c := genM1(r, p, id)
		if name == "C11tall" {
			// a final commit and a sweep of lookups and absence proofs on it, nothing cached
			c.Ops = append(c.Ops, []string{"save"}, []string{"costsweep"})
			c.Cfgs = []string{"cache=0,fast=false,flush=100000,sync=false,backend=memdb,wrap=true"}
		}
		if name == "C11" {
			// nothing cached: node cache 0, counting wrapper
			fast := []string{"true", "false"}[r.Intn(2)]
			c.Cfgs = []string{"cache=0,fast=" + fast + ",flush=100000,sync=false,backend=memdb,wrap=true"}
		}
		if name == "C04" && len(c.Cfgs) == 0 {
			// nothing cached in half of the configurations: stale cache entries must not mask missing nodes
			cf := configsFor(r, tier, 2)
			cf[0] = strings.Replace(cf[0], cf[0][:strings.Index(cf[0], ",")], "cache=0", 1)
			c.Cfgs = cf
		}
		if name == "C04w" {
			c.Cfgs = wrapConfigs(r, 2, []int{64, 100, 128, 160, 200, 300, 400, 1000, 100000})
		}
		if name == "C17" {
			c.Cfgs = wrapConfigs(r, 1, []int{400, 100000})
		}
		if name == "C05" {
			c.Cfgs = wrapConfigs(r, 1, []int{100, 128, 160, 200, 300, 400, 1000, 100000})
		}
		return c
	}
}

var generators = map[string]func(r *rand.Rand, tier, id string) Case{}

func init() {
	for name := range profiles {
		generators[name] = m1gen(name)
	}
}

// execTimed runs one operation with a watchdog.
func execTimed(sys *Sys, op []string) string {
	done := make(chan string, 1)
	go func() { done <- sys.Exec(op) }()
	limit := 60 * time.Second
	if op[0] == "crash" || op[0] == "fault" || op[0] == "expimp" {
		limit = 300 * time.Second
	}
	select {
	case r := <-done:
		return r
	case <-time.After(limit):
		return "hang"
	}
}
