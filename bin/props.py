"""Per-property configuration of bin/check."""

M1_TB = ["model M1 (coq/Tree.v, coq/MTree.v): hand-written Gallina transcription of node.go / mutable_tree.go / immutable_tree.go at the logical level; node cache, fast index, batching and backends are not part of it"]

def prof(name, quick, thorough, ncfg=2):
    return {"name": name, "quick": quick, "thorough": thorough, "ncfg": ncfg}

PROPS = {
    "C01": {"profiles": [prof("C01", 150, 1500, 2)], "trusted_base": M1_TB,
            "assumptions": ["every history is generated; LoadVersionForOverwriting(0) and pruning the version the working tree is based on are outside the generated space",
                            "configuration independence is by construction in the model and by sweep (cache, fast index, flush threshold, sync, backend, initial version) on the implementation"]},
    "C02": {"profiles": [prof("C02", 150, 1500, 2)], "trusted_base": M1_TB + ["coq/Sha256.v is executable only (nothing proved about it); mismatches with crypto/sha256 would surface as hash mismatches"],
            "assumptions": ["the model is the independent implementation of the IAVL+ rules; it shares no code with the Go library"]},
    "C03": {"profiles": [prof("C03", 120, 1200, 2), prof("C03e", 30, 200, 1)], "trusted_base": M1_TB + ["the ICS-23 verifier is the real github.com/cosmos/ics23/go v0.11.0 run inside the harness (not modelled)"],
            "assumptions": ["proof kind expected from the model's lookup; verification and negative checks (other value, other key, opposite claim, roots of other retained versions where the claim is false) by the real verifier"],
            "nontrivial": lambda b: b.count(" proof ") >= 5},
    "C04": {"profiles": [prof("C04", 200, 2000, 2)], "trusted_base": M1_TB, "assumptions": []},
    "C07": {"profiles": [prof("C07", 200, 2000, 2)], "trusted_base": M1_TB, "assumptions": []},
    "C08": {"profiles": [prof("C08", 200, 2000, 2)], "trusted_base": M1_TB, "assumptions": [],
            "nontrivial": lambda b: b.count(" iter") >= 3},
    "C09": {"profiles": [prof("C09", 200, 2000, 2)], "trusted_base": M1_TB, "assumptions": []},
    "C11": {"profiles": [prof("C11", 120, 1000, 1)], "trusted_base": M1_TB, "assumptions": [],
            "nontrivial": lambda b: b.count("\nset") >= 8},
    "C14": {"profiles": [prof("C14", 250, 2500, 2)], "trusted_base": M1_TB, "assumptions": []},
}

PROPS["C12"] = {"profiles": [prof("C04", 120, 1200, 2), prof("C09", 120, 1200, 2)], "trusted_base": M1_TB + ["expected store = node keys reachable from the model's retained roots (computed in ocaml/driver.ml from the model forest); raw scan decoded by an independent Go decoder (harness/rawdec.go)"],
                 "assumptions": ["a root re-keyed by pruning from (v,1) to (v,0) is printed as (v,1) on both sides (part of the format)"]}
PROPS["C13"] = {"profiles": [prof("C01", 100, 1000, 2)], "trusted_base": M1_TB, "assumptions": []}

LEVELS = {
 "C07": {"text": "Theorems: the two-cursor merge of the sorted persisted index with the unsaved additions/removals equals iteration over apply_overlay(index) for all bounds and directions; tree walk, index iterator and overlay iterator agree on coherent states. Tie: correspondence of Get vs GetWithIndex, Iterator vs IterateRange, GetVersioned and the raw persisted index against the model after every step, with every (re)open independently choosing index on/off and the version to load.",
         "note": "index coherence across open/build/rollback is established by correspondence (raw index audit = latest version's pairs), the merge logic by proof", "design_ref": "DESIGN.md §6 C07"},
 "C08": {"text": "Theorems: the traversal stack machine of iterator.go, the Iterator wrapper, the index range scan and the unsaved-overlay merge all equal range_spec (exact range, order, each key once, termination, invalid for good; stop callbacks deliver a prefix) for every wf tree and all bounds. Tie: correspondence of Iterator / IterateRange / IterateRangeInclusive / Iterate on committed, working, historical and empty trees over generated bound triples.",
         "note": "iterator models are transcriptions checked against the code by the correspondence of their outputs (range_spec) with the real iterators", "design_ref": "DESIGN.md §6 C08"},
 "C01": {"text": "Theorems: every reachable model state satisfies the ordering/AVL invariant; every read equals the sorted-map answer; Set/Remove refine insert/delete (unbounded, all histories). Tie to the code: correspondence of all reads after every step under a configuration sweep.",
         "note": "model = M1 (hand-written); tie = differential correspondence (sampled); configuration independence by construction in the model, by sweep on the implementation", "design_ref": "DESIGN.md §6 C01"},
 "C11": {"text": "Theorems: AVL balance and exact cached height/size in every reachable state, Fibonacci size bound fib(h+2) <= n, rank/lookup inverse. Tie: correspondence of Height/Size/GetByIndex/GetWithIndex on ordered and random insertion orders.",
         "note": "real-valued 1.4405*log2 form is a corollary checked numerically by the harness; node-read counts checked as a bound on the implementation", "design_ref": "DESIGN.md §6 C11"},
}

# properties whose theorem file is complete and in _CoqProject (claimed in MANIFEST.json)
READY = ["C01", "C07", "C08", "C11"]
