# Builds everything the checks need, offline.
# REPO  = the cosmos/iavl tree under test (default /repo; bin/seedtest points it at a scratch worktree)
# BUILD = where binaries go (default /verif/build)
SHELL := /bin/bash
export GOFLAGS := -mod=mod
export GOPROXY := off
export GOSUMDB := off
export GOTOOLCHAIN := local
REPO ?= /repo
BUILD ?= $(CURDIR)/build
QUIET_CGO := 2> >(grep -v 'sqlite3\|warning\|return pNew\|Select standin\|declared here\|\^\||' >&2)

.PHONY: setup rest coq ocaml harness harness2 legacygen race clean

setup: coq ocaml harness harness2 legacygen race

coq:
	cd coq && coq_makefile -f _CoqProject -o Makefile.coq >/dev/null && timeout 1800 $(MAKE) -f Makefile.coq -j16

# "rest" = everything below the shared Coq build (bin/check runs it outside the exclusive lock)
rest: ocaml harness harness2 legacygen race

ocaml: $(if $(NOCOQ),,coq)
	mkdir -p $(BUILD)/ocaml && cd $(BUILD)/ocaml && timeout 300 coqc -Q $(CURDIR)/coq IAVL $(CURDIR)/coq/Extract.v \
	  && cp $(CURDIR)/ocaml/driver.ml . \
	  && ocamlfind ocamlopt -package str -linkpkg -w -a model.mli model.ml driver.ml -o driver

# the harness modules are built with an alternate module file so that REPO can be any checkout
$(BUILD)/harness.mod: harness/go.mod
	mkdir -p $(BUILD) && sed 's#=> /repo#=> $(REPO)#' harness/go.mod > $(BUILD)/harness.mod

harness: $(BUILD)/harness.mod
	sed 's#=> /repo#=> $(REPO)#' harness/go.mod > $(BUILD)/harness.mod && cp $(REPO)/go.sum $(BUILD)/harness.sum
	cd harness && go build -modfile=$(BUILD)/harness.mod -tags verif -o $(BUILD)/harness .

race: harness
	cd harness && go build -modfile=$(BUILD)/harness.mod -race -tags verif -o $(BUILD)/harness-race .

harness2:
	mkdir -p $(BUILD) && sed 's#=> /repo#=> $(REPO)#' harness2/go.mod > $(BUILD)/harness2.mod && sort -u $(REPO)/go.sum $(REPO)/v2/go.sum > $(BUILD)/harness2.sum
	cd harness2 && go build -modfile=$(BUILD)/harness2.mod -tags verif -o $(BUILD)/harness2 . $(QUIET_CGO)

legacygen:
	mkdir -p $(BUILD) && cd legacygen && ( [ -s go.sum ] || cp /repo/cmd/legacydump/go.sum . ) && go build -o $(BUILD)/legacygen .

clean:
	rm -rf build; cd coq && rm -f *.vo *.vok *.vos *.glob .*.aux Makefile.coq Makefile.coq.conf .Makefile.coq.d
