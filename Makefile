# Builds everything the checks need, offline.
SHELL := /bin/bash
export GOFLAGS := -mod=mod
export GOPROXY := off
export GOSUMDB := off
export GOTOOLCHAIN := local

.PHONY: setup coq ocaml harness harness2 legacygen race clean

setup: coq ocaml harness harness2 legacygen race

coq:
	cd coq && coq_makefile -f _CoqProject -o Makefile.coq >/dev/null && timeout 1800 $(MAKE) -f Makefile.coq -j16

ocaml: coq
	mkdir -p build/ocaml && cd build/ocaml && timeout 300 coqc -Q ../../coq IAVL ../../coq/Extract.v \
	  && cp ../../ocaml/driver.ml . \
	  && ocamlfind ocamlopt -package str -linkpkg -w -a model.mli model.ml driver.ml -o driver

harness:
	mkdir -p build && cd harness && cp /repo/go.sum . && go build -tags verif -o ../build/harness .

harness2:
	mkdir -p build && cd harness2 && ./prepare.sh && go build -tags verif -o ../build/harness2 . 2> >(grep -v 'sqlite3\|warning\|return pNew\|Select standin\|declared here\|\^\||' >&2)

legacygen:
	mkdir -p build && cd legacygen && ./prepare.sh >/dev/null

race:
	cd harness && cp /repo/go.sum . && go build -race -tags verif -o ../build/harness-race .

clean:
	rm -rf build; cd coq && rm -f *.vo *.vok *.vos *.glob .*.aux Makefile.coq Makefile.coq.conf .Makefile.coq.d
