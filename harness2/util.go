package main

import (
	"encoding/hex"
	"fmt"
	"sort"
	"strconv"
	"strings"
)

// hx prints a byte string as a trace token: "-" nil, "." empty, hex otherwise.
func hx(b []byte) string {
	if b == nil {
		return "-"
	}
	if len(b) == 0 {
		return "."
	}
	return hex.EncodeToString(b)
}

// unhx parses a trace token ("-" nil, "." empty non-nil).
func unhx(s string) []byte {
	if s == "-" {
		return nil
	}
	if s == "." {
		return []byte{}
	}
	b, err := hex.DecodeString(s)
	if err != nil {
		panic("bad hex token " + s)
	}
	return b
}

// result terms (must equal ocaml/driver.ml show_out)
func rBytes(b []byte) string {
	if b == nil {
		return "nil"
	}
	return "b:" + hex.EncodeToString(b)
}
func rBool(b bool) string {
	if b {
		return "t"
	}
	return "f"
}
func rInt(i int64) string      { return "i:" + strconv.FormatInt(i, 10) }
func rPair(a, b string) string { return "(" + a + "," + b + ")" }

type kv struct{ k, v []byte }

func rKvs(l []kv) string {
	parts := make([]string, len(l))
	for i, p := range l {
		parts[i] = hex.EncodeToString(p.k) + "=" + hex.EncodeToString(p.v)
	}
	return "kv:[" + strings.Join(parts, ",") + "]"
}
func rInts(l []int64) string {
	parts := make([]string, len(l))
	for i, p := range l {
		parts[i] = strconv.FormatInt(p, 10)
	}
	return "is:[" + strings.Join(parts, ",") + "]"
}

func atoi(s string) int64 {
	v, err := strconv.ParseInt(s, 10, 64)
	if err != nil {
		panic("bad int token " + s)
	}
	return v
}

func sortedKeys(m map[string]int) []string {
	ks := make([]string, 0, len(m))
	for k := range m {
		ks = append(ks, k)
	}
	sort.Strings(ks)
	return ks
}

func firstLine(s string) string {
	if i := strings.IndexByte(s, '\n'); i >= 0 {
		s = s[:i]
	}
	if len(s) > 160 {
		s = s[:160]
	}
	return strings.ReplaceAll(s, " ", "_")
}

func safely(f func() string) (res string) {
	defer func() {
		if r := recover(); r != nil {
			res = "panic:" + firstLine(fmt.Sprint(r))
		}
	}()
	return f()
}
