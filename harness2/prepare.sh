#!/bin/sh
# Regenerates go.sum from the modules under test (they may change); offline.
set -e
cd "$(dirname "$0")"
sort -u /repo/go.sum /repo/v2/go.sum > go.sum
