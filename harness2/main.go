// harness2: trace producer for the SQLite-backed v2 tree of cosmos/iavl (properties C19, C20).
//
//	harness2 gen -profile C19|C20 -seed n -n cases -tier quick|thorough   (cases without results)
//	harness2 run [-stats file] [-inproc]                                   (stdin: cases, stdout: trace)
//
// The trace format is the one of /verif/harness (m1 cases). Every (case, configuration) pair is executed
// in a child process ("runone"): the v2 writer goroutines call os.Exit on errors and some v2 entry points
// panic in goroutines of their own, which no recover can contain.
//
// Environment:
//
//	H2_NOX=1     print harness-level oracle lines ("x ...") as comments instead of op lines
//	H2_DEBUG=1   errors of the library go to stderr
package main

import (
	"bufio"
	"bytes"
	"flag"
	"fmt"
	"math/rand"
	"os"
	"os/exec"
	"strings"
	"time"
)

// Case is one generated history.
type Case struct {
	ID     string
	Kind   string
	Params []string // machine parameters (model-visible)
	Cfgs   []string // configurations (model-invisible)
	Ops    [][]string
}

func writeCase(w *bufio.Writer, c Case) {
	fmt.Fprintf(w, "C %s %s %s cfgs=%s\n", c.ID, c.Kind, strings.Join(c.Params, " "), strings.Join(c.Cfgs, "|"))
	for _, op := range c.Ops {
		fmt.Fprintln(w, strings.Join(op, " "))
	}
	fmt.Fprintln(w, "E")
}

func readCases(rd *bufio.Scanner) []Case {
	var cases []Case
	var cur *Case
	for rd.Scan() {
		line := rd.Text()
		if line == "" || line[0] == '#' {
			continue
		}
		if strings.HasPrefix(line, "C ") {
			f := strings.Fields(line)
			c := Case{ID: f[1], Kind: f[2]}
			for _, p := range f[3:] {
				if strings.HasPrefix(p, "cfgs=") {
					c.Cfgs = strings.Split(p[5:], "|")
				} else if strings.HasPrefix(p, "cfg=") {
					c.Cfgs = []string{p[4:]}
				} else {
					c.Params = append(c.Params, p)
				}
			}
			cases = append(cases, c)
			cur = &cases[len(cases)-1]
			continue
		}
		if line == "E" {
			cur = nil
			continue
		}
		if cur != nil {
			if i := strings.Index(line, " => "); i >= 0 {
				line = line[:i]
			}
			cur.Ops = append(cur.Ops, strings.Fields(line))
		}
	}
	return cases
}

var noX = os.Getenv("H2_NOX") != ""

// xLine formats a harness-level oracle line.
func xLine(op []string, res string) string {
	s := strings.Join(op, " ") + " => " + res
	if noX {
		return "# " + s
	}
	return s
}

const childTimeout = 300 * time.Second

// runChild executes one (case, cfg) in a child process and copies its block.
func runChild(w *bufio.Writer, c Case, idx int, cs string, stats map[string]int) {
	var in bytes.Buffer
	bw := bufio.NewWriter(&in)
	cc := c
	cc.Cfgs = []string{cs}
	writeCase(bw, cc)
	bw.Flush()
	self, err := os.Executable()
	if err != nil {
		self = os.Args[0]
	}
	// the child's scratch space is ours: it may die without cleaning up
	tmp, terr := os.MkdirTemp("", "verif-v2-")
	if terr == nil {
		defer os.RemoveAll(tmp)
	}
	cmd := exec.Command(self, "runone", "-idx", fmt.Sprint(idx))
	cmd.Env = append(os.Environ(), "H2_TMP="+tmp)
	cmd.Stdin = &in
	var out, errb bytes.Buffer
	cmd.Stdout = &out
	cmd.Stderr = &errb
	done := make(chan error, 1)
	if err := cmd.Start(); err != nil {
		fmt.Fprintf(w, "C %s#%d %s %s cfg=%s\n# cannot start child: %v\nE\n", c.ID, idx, c.Kind, strings.Join(c.Params, " "), cs, err)
		return
	}
	go func() { done <- cmd.Wait() }()
	var werr error
	select {
	case werr = <-done:
	case <-time.After(childTimeout):
		_ = cmd.Process.Kill()
		<-done
		werr = fmt.Errorf("killed-after-%s", childTimeout)
	}
	text := out.String()
	complete := strings.HasSuffix(text, "E\n") || strings.Contains(text, "\nE\n#stats")
	var lines []string
	for _, l := range strings.Split(text, "\n") {
		if strings.HasPrefix(l, "#stats ") {
			for _, kv := range strings.Fields(l[7:]) {
				if i := strings.LastIndexByte(kv, '='); i > 0 {
					stats[kv[:i]] += int(atoi(kv[i+1:]))
				}
			}
			continue
		}
		lines = append(lines, l)
	}
	for len(lines) > 0 && lines[len(lines)-1] == "" {
		lines = lines[:len(lines)-1]
	}
	if werr == nil && complete {
		for _, l := range lines {
			fmt.Fprintln(w, l)
		}
		return
	}
	// the child died: keep the complete lines, flag the death, close the block
	stats["child-died"]++
	if len(lines) == 0 {
		fmt.Fprintf(w, "C %s#%d %s %s cfg=%s\n", c.ID, idx, c.Kind, strings.Join(c.Params, " "), cs)
	}
	for _, l := range lines {
		if l == "E" {
			continue
		}
		if strings.Contains(l, " => ") || strings.HasPrefix(l, "#") || strings.HasPrefix(l, "C ") {
			fmt.Fprintln(w, l)
		}
	}
	tail := strings.Split(strings.TrimSpace(errb.String()), "\n")
	for i, l := range tail {
		if i >= len(tail)-12 && strings.TrimSpace(l) != "" {
			fmt.Fprintf(w, "# child stderr: %s\n", l)
		}
	}
	if !strings.Contains(text, " => hang\n") { // a hang is already on its op line
		fmt.Fprintln(w, xLine([]string{"x", "process"}, "died:"+firstLine(fmt.Sprint(werr))))
	}
	fmt.Fprintln(w, "E")
}

func main() {
	if len(os.Args) < 2 {
		fmt.Fprintln(os.Stderr, "usage: harness2 gen|run ...")
		os.Exit(2)
	}
	cmd := os.Args[1]
	fs := flag.NewFlagSet(cmd, flag.ExitOnError)
	profile := fs.String("profile", "C19", "generator profile (C19|C20)")
	seed := fs.Int64("seed", 1, "PRNG seed")
	n := fs.Int("n", 10, "number of cases")
	tier := fs.String("tier", "quick", "quick|thorough")
	ncfg := fs.Int("ncfg", 0, "configurations per case (0: 2 quick, 4 thorough)")
	statsFile := fs.String("stats", "", "write op/err histogram here")
	inproc := fs.Bool("inproc", false, "run: do not isolate cases in child processes")
	idx := fs.Int("idx", 0, "runone: configuration index")
	_ = fs.Parse(os.Args[2:])
	out := bufio.NewWriterSize(os.Stdout, 1<<20)
	defer out.Flush()
	switch cmd {
	case "gen":
		r := rand.New(rand.NewSource(*seed))
		gf, ok := generators[*profile]
		if !ok {
			fmt.Fprintln(os.Stderr, "unknown profile", *profile)
			os.Exit(2)
		}
		k := *ncfg
		if k == 0 {
			k = 2
			if *tier == "thorough" {
				k = 4
			}
		}
		for i := 0; i < *n; i++ {
			c := gf(r, *tier, fmt.Sprintf("%s-%d-%d", *profile, *seed, i))
			if c.Cfgs == nil {
				c.Cfgs = configsFor(r, k)
			}
			writeCase(out, c)
		}
	case "run":
		sc := bufio.NewScanner(os.Stdin)
		sc.Buffer(make([]byte, 1<<20), 1<<28)
		cases := readCases(sc)
		stats := map[string]int{}
		t0 := time.Now()
		for _, c := range cases {
			cfgs := c.Cfgs
			if len(cfgs) == 0 {
				cfgs = []string{""}
			}
			for i, cs := range cfgs {
				if *inproc {
					runOne(out, c, i, cs, stats)
				} else {
					runChild(out, c, i, cs, stats)
				}
				out.Flush()
			}
		}
		if *statsFile != "" {
			f, _ := os.Create(*statsFile)
			fmt.Fprintf(f, "{\"cases\":%d,\"wall_s\":%.2f", len(cases), time.Since(t0).Seconds())
			for _, k := range sortedKeys(stats) {
				fmt.Fprintf(f, ",%q:%d", k, stats[k])
			}
			fmt.Fprintln(f, "}")
			f.Close()
		}
	case "runone":
		sc := bufio.NewScanner(os.Stdin)
		sc.Buffer(make([]byte, 1<<20), 1<<28)
		cases := readCases(sc)
		stats := map[string]int{}
		for _, c := range cases {
			cs := ""
			if len(c.Cfgs) > 0 {
				cs = c.Cfgs[0]
			}
			runOne(out, c, *idx, cs, stats)
		}
		fmt.Fprint(out, "#stats")
		for _, k := range sortedKeys(stats) {
			fmt.Fprintf(out, " %s=%d", k, stats[k])
		}
		fmt.Fprintln(out)
	default:
		fmt.Fprintln(os.Stderr, "unknown command", cmd)
		os.Exit(2)
	}
}
