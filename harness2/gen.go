package main

import (
	"math/rand"
	"sort"
	"strconv"
)

// The key alphabet of the v1 harness: adjacent, prefix-related, 1-byte, long, high bytes.
var alphabet = [][]byte{
	[]byte("a"), {0x61, 0x00}, []byte("aa"), []byte("ab"), []byte("b"), []byte("ba"), []byte("c"),
	[]byte("m"), []byte("mm"), []byte("z"), {0xff}, {0xff, 0xff}, {0x00}, {0x01},
}

func longKey() []byte {
	b := make([]byte, 200)
	for i := range b {
		b[i] = byte('k' + i%3)
	}
	return b
}

type keyGen struct {
	r    *rand.Rand
	pool [][]byte
}

func newKeyGen(r *rand.Rand, n int) *keyGen {
	g := &keyGen{r: r}
	perm := r.Perm(len(alphabet))
	na := n
	if n > 6 {
		na = 6 + r.Intn(n-5)
	}
	for i := 0; i < na && i < len(perm); i++ {
		g.pool = append(g.pool, alphabet[perm[i]])
	}
	for len(g.pool) < n {
		var b []byte
		switch r.Intn(10) {
		case 0:
			b = longKey()
		case 1, 2: // extension of an existing key
			e := g.pool[r.Intn(len(g.pool))]
			b = append(append([]byte{}, e...), byte(r.Intn(3)))
		default:
			b = make([]byte, 1+r.Intn(4))
			for i := range b {
				b[i] = byte(r.Intn(256))
			}
		}
		dup := false
		for _, k := range g.pool {
			if string(k) == string(b) {
				dup = true
			}
		}
		if !dup {
			g.pool = append(g.pool, b)
		}
	}
	return g
}

func (g *keyGen) key() []byte { return g.pool[g.r.Intn(len(g.pool))] }

func (g *keyGen) inPool(b []byte) bool {
	for _, k := range g.pool {
		if string(k) == string(b) {
			return true
		}
	}
	return false
}

// a non-empty key near a pool key: neighbour / prefix / extension
func (g *keyGen) probe() []byte {
	b := append([]byte{}, g.key()...)
	switch g.r.Intn(4) {
	case 0:
		return append(b, 0)
	case 1:
		if len(b) > 1 {
			return b[:len(b)-1]
		}
		return append(b, 1)
	case 2:
		b[len(b)-1]++
		return b
	}
	b[len(b)-1]--
	return b
}

// a key that is not in the pool
func (g *keyGen) absent() []byte {
	for i := 0; i < 20; i++ {
		if p := g.probe(); !g.inPool(p) {
			return p
		}
	}
	return []byte("absent-key")
}

func (g *keyGen) value(empty bool) []byte {
	switch g.r.Intn(8) {
	case 0:
		if empty {
			return []byte{}
		}
		return []byte("e")
	case 1:
		return []byte("same")
	case 2:
		b := make([]byte, 40+g.r.Intn(60))
		g.r.Read(b)
		return b
	}
	return []byte(strconv.Itoa(g.r.Intn(1000)))
}

func i64(v int64) string { return strconv.FormatInt(v, 10) }

// bound of a random iterator: a pool key, a neighbour / prefix / extension, or open
func (g *keyGen) bound() string {
	switch g.r.Intn(6) {
	case 0:
		return "-"
	case 1, 2:
		return hx(g.probe())
	}
	return hx(g.key())
}

// burst: the read burst that follows every save.
func burst(r *rand.Rand, g *keyGen, full bool, ops *[][]string) {
	add := func(t ...string) { *ops = append(*ops, append([]string{"r", "w"}, t...)) }
	if r.Intn(2) == 0 {
		// iterators FIRST, before any lookup has brought evicted children back into memory:
		// inclusive forward ranges ending exactly at stored keys (seed C19f), and single-key ranges
		for i := 0; i < 3; i++ {
			k := hx(g.key())
			add("iter", "-", k, "1", "1")
			add("iter", k, k, "1", "1")
		}
		add("iter", "-", "-", "0", "0")
	}
	add("size")
	add("height")
	if full {
		for _, k := range g.pool {
			add("get", hx(k))
			add("has", hx(k))
		}
	} else {
		for i := 0; i < 3; i++ {
			k := g.key()
			add("get", hx(k))
			add("has", hx(k))
		}
	}
	for i := 0; i < 2; i++ {
		p := g.absent()
		add("get", hx(p))
		add("has", hx(p))
	}
	add("iter", "-", "-", "0", "1")
	add("iter", "-", "-", "0", "0")
	for i := 0; i < 3; i++ {
		a, b := g.bound(), g.bound()
		// mostly well-ordered bounds, sometimes crossed ones
		if a != "-" && b != "-" && string(unhx(a)) > string(unhx(b)) && r.Intn(4) != 0 {
			a, b = b, a
		}
		asc := r.Intn(2)
		incl := 0
		if asc == 1 { // v2 has no inclusive reverse iterator
			incl = r.Intn(2)
		}
		add("iter", a, b, strconv.Itoa(incl), strconv.Itoa(asc))
	}
}

// histGen produces per-version write sets in the normal form v2 requires: inside one version every
// key is written or removed at most once.
type histGen struct {
	r       *rand.Rand
	g       *keyGen
	empty   bool
	present map[string]bool
	W       [][][]string // W[i]: the writes of version i+1
}

func (h *histGen) presentKeys() [][]byte {
	var ks []string
	for k := range h.present {
		ks = append(ks, k)
	}
	sort.Strings(ks)
	out := make([][]byte, len(ks))
	for i, k := range ks {
		out[i] = []byte(k)
	}
	return out
}

// version generates the write set of the next version.
func (h *histGen) version() [][]string {
	r := h.r
	var ws [][]string
	set := func(k []byte) {
		ws = append(ws, []string{"set", hx(k), hx(h.g.value(h.empty))})
		h.present[string(k)] = true
	}
	rm := func(k []byte) {
		ws = append(ws, []string{"rm", hx(k)})
		delete(h.present, string(k))
	}
	mode := r.Intn(20)
	switch {
	case mode == 0 || mode == 1: // a version without writes
	case mode == 2 && len(h.present) > 0: // shrink to empty
		for _, k := range h.presentKeys() {
			rm(k)
		}
	case mode == 3: // rewrite everything present, add the rest
		perm := r.Perm(len(h.g.pool))
		for _, i := range perm {
			set(h.g.pool[i])
		}
	case mode == 5 && len(h.present) > 1: // shrink to one key and rewrite it: a one-leaf root written in this version
		ks := h.presentKeys()
		keep := r.Intn(len(ks))
		for i, k := range ks {
			if i != keep {
				rm(k)
			}
		}
		set(ks[keep])
	case (mode == 6 || mode == 7) && len(h.present) == 0: // regrow from empty with exactly one key
		set(h.g.pool[r.Intn(len(h.g.pool))])
	case (mode == 6 || mode == 7 || mode == 8) && len(h.present) == 1: // update the only key / add exactly one
		if mode == 8 {
			set(h.g.pool[r.Intn(len(h.g.pool))])
		} else {
			set(h.presentKeys()[0])
		}
	case mode == 4 && len(h.present) > 1: // remove all but one
		ks := h.presentKeys()
		keep := r.Intn(len(ks))
		for i, k := range ks {
			if i != keep {
				rm(k)
			}
		}
	default:
		// a random subset of the pool, each key set to a new value or removed if present
		p := []float64{0.15, 0.3, 0.5, 0.8}[r.Intn(4)]
		pRm := []float64{0.2, 0.4, 0.6}[r.Intn(3)]
		perm := r.Perm(len(h.g.pool))
		for _, i := range perm {
			if r.Float64() >= p {
				continue
			}
			k := h.g.pool[i]
			if h.present[string(k)] {
				if r.Float64() < pRm {
					rm(k)
				} else {
					set(k)
				}
			} else if r.Intn(12) == 0 {
				rm(k) // removal of an absent key: no effect
			} else {
				set(k)
			}
		}
	}
	h.W = append(h.W, ws)
	return ws
}

var (
	ciSweep = []int64{1, 2, 5, 1000}
	hfSweep = []int8{0, 1}
	edSweep = []int8{-1, 0, 2, 20}
)

func configsFor(r *rand.Rand, n int) []string {
	var out []string
	seen := map[string]bool{}
	for len(out) < n {
		c := Config{CI: ciSweep[r.Intn(4)], HF: hfSweep[r.Intn(2)], ED: edSweep[r.Intn(4)], Shard: r.Intn(2) == 0}
		if seen[c.String()] {
			continue
		}
		seen[c.String()] = true
		out = append(out, c.String())
	}
	return out
}

func poolSize(r *rand.Rand, tier string) int {
	n := 3 + r.Intn(8)
	if tier == "thorough" && r.Intn(3) == 0 {
		n = 12 + r.Intn(30)
	}
	return n
}

// C19: v2 against the model (and v1) on plain histories with a read burst after every commit.
func genC19(r *rand.Rand, tier, id string) Case {
	g := newKeyGen(r, poolSize(r, tier))
	h := &histGen{r: r, g: g, empty: r.Intn(4) != 0, present: map[string]bool{}}
	nv := 4 + r.Intn(14)
	if tier == "thorough" {
		nv = 6 + r.Intn(40)
	}
	c := Case{ID: id, Kind: "m1", Params: []string{"iv=-"}}
	if r.Intn(4) == 0 { // reads on the tree that was never written
		burst(r, g, false, &c.Ops)
	}
	for v := 0; v < nv; v++ {
		c.Ops = append(c.Ops, h.version()...)
		if r.Intn(4) == 0 { // reads of the uncommitted working tree
			burst(r, g, false, &c.Ops)
		}
		c.Ops = append(c.Ops, []string{"save"})
		burst(r, g, true, &c.Ops)
	}
	return c
}

// C20o: the branch bookkeeping of the tree database against V2Orphans.v: one tree object from
// the first write to the end (no reopen: a reloaded tree hands out its sequence numbers afresh),
// removals of absent keys, deletions that are waited for, the raw orphan / branch / root rows
// after every commit and every deletion.
func genC20o(r *rand.Rand, tier, id string) Case {
	g := newKeyGen(r, poolSize(r, tier))
	h := &histGen{r: r, g: g, empty: r.Intn(4) != 0, present: map[string]bool{}}
	nv := 5 + r.Intn(10)
	if tier == "thorough" {
		nv = 8 + r.Intn(24)
	}
	c := Case{ID: id, Kind: "m1", Params: []string{"iv=-"}}
	for v := int64(1); v <= int64(nv); v++ {
		c.Ops = append(c.Ops, h.version()...)
		c.Ops = append(c.Ops, []string{"save"}, []string{"x", "oraw"}, []string{"x", "lfraw"})
		if v >= 3 && r.Intn(4) == 0 {
			c.Ops = append(c.Ops, []string{"x", "prune", i64(1 + r.Int63n(v))}, []string{"x", "oraw"}, []string{"x", "lfraw"})
		}
	}
	return c
}

// C20: close / reopen / load of retained versions, continuation, pruning, snapshots.
func genC20(r *rand.Rand, tier, id string) Case {
	g := newKeyGen(r, poolSize(r, tier))
	h := &histGen{r: r, g: g, empty: r.Intn(4) != 0, present: map[string]bool{}}
	nv := 6 + r.Intn(14)
	if tier == "thorough" {
		nv = 8 + r.Intn(34)
	}
	c := Case{ID: id, Kind: "m1", Params: []string{"iv=-"}}
	add := func(t ...string) { c.Ops = append(c.Ops, t) }
	pruneAt, pruneTo := int64(0), int64(0)
	if r.Intn(2) == 0 {
		pruneAt = 2 + r.Int63n(int64(nv)-1) // after the save of this version
		pruneTo = 1 + r.Int63n(pruneAt)     // 1..pruneAt (pruneAt itself: "up to the latest")
		if r.Intn(6) == 0 {
			pruneTo = pruneAt + 1 + r.Int63n(3) // beyond the latest version
		}
	}
	var nonEmpty []int64 // versions with a non-empty tree
	var liveSnaps []int64
	for v := int64(1); v <= int64(nv); v++ {
		c.Ops = append(c.Ops, h.version()...)
		add("save")
		if len(h.present) > 0 {
			nonEmpty = append(nonEmpty, v)
		}
		if r.Intn(3) == 0 {
			burst(r, g, true, &c.Ops)
		}
		if len(h.present) > 0 && r.Intn(10) == 0 {
			add("x", "livesnap", i64(v))
			liveSnaps = append(liveSnaps, v)
		}
		if len(h.present) > 0 && r.Intn(10) == 0 {
			add("x", "liveexport", i64(v), []string{"pre", "post"}[r.Intn(2)])
		}
		if v == pruneAt {
			switch r.Intn(3) {
			case 0: // check right away (needs a close)
				add("x", "prune", i64(pruneTo))
				add("x", "loadable")
				add("x", "loadcontents")
				add("reopen")
				burst(r, g, true, &c.Ops)
			case 1: // the pruners run while the history goes on
				add("x", "prune", i64(pruneTo), "nowait")
			default:
				add("x", "prune", i64(pruneTo))
			}
		} else if r.Intn(8) == 0 {
			add("reopen")
			burst(r, g, true, &c.Ops)
		}
	}
	n := int64(nv)
	// every version that has to be retained loads from the closed database
	add("x", "prunewait")
	add("x", "loadable")
	add("x", "loadcontents")
	// targets: versions that must be loadable whatever the checkpoint interval is
	lo := int64(1)
	if pruneTo > 0 {
		lo = pruneTo
		if lo > n {
			lo = n
		}
	}
	cand := map[int64]bool{n: true, lo: true}
	if n-1 >= lo {
		cand[n-1] = true
	}
	nt := 3
	if tier == "thorough" {
		nt = 5
	}
	for i := 0; i < nt; i++ {
		cand[lo+r.Int63n(n-lo+1)] = true
	}
	var targets []int64
	for v := range cand {
		targets = append(targets, v)
	}
	sort.Slice(targets, func(i, j int) bool { return targets[i] < targets[j] })
	r.Shuffle(len(targets), func(i, j int) { targets[i], targets[j] = targets[j], targets[i] })
	for _, v := range targets {
		add("lvfo", i64(v))
		add("x", "lvhash", i64(v))
		burst(r, g, true, &c.Ops)
		// continue the history from v: the same write sets again
		for w := v + 1; w <= n; w++ {
			c.Ops = append(c.Ops, h.W[w-1]...)
			add("save")
			if w == n || r.Intn(4) == 0 {
				burst(r, g, true, &c.Ops)
			}
		}
		add("x", "continue", i64(v))
		if v < n && r.Intn(2) == 0 {
			// the continued database, closed: every retained version still loads
			add("x", "loadable")
			add("x", "loadcontents")
		}
	}
	// snapshots (on copies of the main database; the main database stays closed from here on)
	add("lvfo", i64(n)) // leave the main database: the x ops below copy it
	for _, v := range liveSnaps {
		if v >= lo {
			add("x", "snapload", i64(v), "pre")
		}
	}
	pick := func() int64 { return lo + r.Int63n(n-lo+1) }
	isLive := func(v int64) bool {
		for _, l := range liveSnaps {
			if l == v {
				return true
			}
		}
		return false
	}
	for i, k := 0, 1+r.Intn(2); i < k; i++ {
		// SaveSnapshot creates the table snapshot_<v>: not where the live snapshot already made one
		if v := pick(); !isLive(v) {
			add("x", "snap", i64(v), "pre")
		}
	}
	add("x", "export", i64(pick()), "pre")
	add("x", "export", i64(pick()), "post")
	_ = nonEmpty
	return c
}

var generators = map[string]func(r *rand.Rand, tier, id string) Case{
	"C19": genC19,
	"C20": genC20,
	"C20o": genC20o,
}
