package main

import (
	"bufio"
	"bytes"
	"context"
	"errors"
	"fmt"
	"os"
	"strings"
	"time"

	v2 "github.com/cosmos/iavl/v2"
)

const opTimeout = 20 * time.Second

// runOne executes a case under one configuration and writes its block.
func runOne(w *bufio.Writer, c Case, idx int, cs string, stats map[string]int) {
	out := &traceOut{w: w}
	out.line("C %s#%d %s %s cfg=%s", c.ID, idx, c.Kind, strings.Join(c.Params, " "), cs)
	defer out.line("E")
	sys, err := newSys(parseConfig(cs), out, stats)
	if err != nil {
		out.line("# cannot create system: %v", err)
		return
	}
	defer sys.close()
	for _, op := range c.Ops {
		stats["op:"+opName(op)]++
		var lines []string // comment lines produced by the op (printed after the result)
		res, hung := withTimeout(opTimeout, func() string { return sys.exec(op, &lines) })
		if strings.HasPrefix(res, "err") {
			stats["err:"+opName(op)]++
		}
		if strings.HasPrefix(res, "panic") {
			stats["panic:"+opName(op)]++
		}
		if op[0] == "x" {
			if res != "ok" {
				stats["xviol:"+opName(op)]++
			}
			out.line("%s", xLine(op, res))
		} else {
			out.line("%s => %s", strings.Join(op, " "), res)
		}
		for _, l := range lines {
			out.line("# %s", l)
		}
		if hung {
			stats["hang"]++
			out.line("# aborted after a hang")
			out.line("E")
			w.Flush()
			os.Exit(3)
		}
	}
}

func opName(op []string) string {
	if (op[0] == "r" || op[0] == "x") && len(op) > 1 {
		if op[0] == "r" && len(op) > 2 {
			return "r-" + op[2]
		}
		return op[0] + "-" + op[1]
	}
	return op[0]
}

// exec runs one op line. Model ops: set rm save r lvfo reopen. Harness-level oracles: x ...
func (s *Sys) exec(op []string, notes *[]string) string {
	note := func(f string, a ...any) { *notes = append(*notes, fmt.Sprintf(f, a...)) }
	switch op[0] {
	case "set":
		k, v := unhx(op[1]), unhx(op[2])
		if s.h == nil {
			return "closed"
		}
		upd, err := s.h.tree.Set(k, v)
		if err != nil {
			return errStr(err)
		}
		_, _ = s.t1.Set(k, v)
		s.refCur[string(k)] = v
		return rBool(upd)
	case "rm":
		k := unhx(op[1])
		if s.h == nil {
			return "closed"
		}
		v, removed, err := s.h.tree.Remove(k)
		if err != nil {
			return errStr(err)
		}
		_, _, _ = s.t1.Remove(k)
		delete(s.refCur, string(k))
		return rPair(rBytes(v), rBool(removed))
	case "save":
		if s.h == nil {
			return "closed"
		}
		h1, ver1, err1 := s.t1.SaveVersion()
		h, ver, err := s.h.tree.SaveVersion()
		if err != nil {
			s.contBad += fmt.Sprintf("save-err-at:%d;", ver)
			return errStr(err)
		}
		s.latest = ver
		if _, ok := s.refVers[ver]; !ok {
			s.refVers[ver] = cloneMap(s.refCur)
		}
		if err1 != nil || ver1 != ver || !bytes.Equal(h1, h) {
			s.stats["v1-hash-differs"]++
			note("v1 hash %x version %d err=%v", h1, ver1, err1)
		}
		if old, ok := s.H[ver]; !ok {
			s.H[ver] = append([]byte{}, h...)
		} else if !bytes.Equal(old, h) {
			s.contBad += fmt.Sprintf("mismatch-at:%d;", ver)
		}
		return rPair(rBytes(h), rInt(ver))
	case "r":
		if s.h == nil {
			return "closed"
		}
		if op[1] != "w" {
			return "badread"
		}
		return execRead(s.h.tree, op[2:])
	case "reopen":
		// close, open a new SqliteDb + Tree on the same directory, LoadVersion(latest)
		if err := s.h.close(); err != nil {
			note("close: %v", err)
		}
		s.h = nil
		h, err := s.openHandle(s.cur)
		if err != nil {
			return errStr(err)
		}
		s.h = h
		if err := h.tree.LoadVersion(s.latest); err != nil {
			note("LoadVersion(%d): %s", s.latest, firstLine(err.Error()))
			return errStr(err)
		}
		s.t1.Rollback()
		s.refCur = cloneMap(s.refVers[s.latest])
		return "ok"
	case "lvfo":
		// close everything, copy the main database, open the copy, LoadVersion(v); the history
		// then continues on the copy from v
		v := atoi(op[1])
		if err := s.h.close(); err != nil {
			note("close: %v", err)
		}
		s.h = nil
		if s.cur != s.main {
			_ = os.RemoveAll(s.cur)
		}
		dir := s.tmpDir()
		if err := copyDir(s.main, dir); err != nil {
			return "copyfail"
		}
		s.cur = dir
		h, err := s.openHandle(dir)
		if err != nil {
			return errStr(err)
		}
		s.h = h
		s.contFrom, s.contBad = v, ""
		// the references follow whatever the library does
		_ = s.t1.LoadVersionForOverwriting(v)
		s.refCur = cloneMap(s.refVers[v])
		s.latest = v
		if err := h.tree.LoadVersion(v); err != nil {
			note("LoadVersion(%d): %s", v, firstLine(err.Error()))
			s.contBad += "load-failed;"
			return errStr(err)
		}
		return "ok"
	case "x":
		return s.execX(op[1:], note)
	}
	return "badop"
}

// ---- harness-level oracles -------------------------------------------------------------------

func (s *Sys) execX(op []string, note func(string, ...any)) string {
	switch op[0] {
	case "lvhash": // x lvhash v: after lvfo v, Hash() equals the hash of the uninterrupted run
		v := atoi(op[1])
		if s.h == nil {
			return "closed"
		}
		if !bytes.Equal(s.h.tree.Hash(), s.H[v]) {
			return fmt.Sprintf("hash:%x-want:%x", s.h.tree.Hash(), s.H[v])
		}
		if s.h.tree.Version() != v {
			return fmt.Sprintf("version:%d", s.h.tree.Version())
		}
		return "ok"
	case "continue": // x continue v: the saves since lvfo v gave the hashes of the uninterrupted run
		if s.contBad != "" {
			return strings.TrimSuffix(s.contBad, ";")
		}
		return "ok"
	case "prune": // x prune n: DeleteVersionsTo(n) and wait for both asynchronous pruners
		n := atoi(op[1])
		if s.h == nil {
			return "closed"
		}
		_, cps, err := rootRows(s.cur)
		if err != nil {
			note("root table unreadable: %v", err)
		}
		c := int64(-1)
		for _, cp := range cps {
			if cp <= n {
				c = cp
			}
		}
		note("checkpoints before prune: %v; last checkpoint <= %d: %d", cps, n, c)
		if err := s.h.tree.DeleteVersionsTo(n); err != nil {
			return errStr(err)
		}
		s.h.prunes++
		if c > s.minRequired {
			s.minRequired = c
		}
		if len(op) > 2 && op[2] == "nowait" {
			if n > s.latest && n > s.raceBound {
				// a bound beyond the latest version, and the pruners run while the history goes on:
				// whether they see the checkpoints written in the meantime is a matter of
				// scheduling ("the last checkpoint not after n" moves while they run)
				s.raceBound = n
			}
			return "ok"
		}
		return s.h.waitPrunes()
	case "oraw": // x oraw: the raw branch bookkeeping of the tree database (V2Orphans.v)
		r, err := orphanRaw(s.cur)
		if err != nil {
			return "err:" + clip(firstLine(err.Error()))
		}
		return r
	case "lfraw": // x lfraw: the raw leaf rows of the change-log database (V2Leaves.v)
		r, err := leafRaw(s.cur)
		if err != nil {
			return "err:" + clip(firstLine(err.Error()))
		}
		return r
	case "prunewait": // x prunewait: wait for the pruners started by "x prune n nowait"
		if s.h == nil {
			return "closed"
		}
		return s.h.waitPrunes()
	case "loadable", "loadcontents":
		// x loadable: close; every version that must be retained loads with its version number and hash
		// x loadcontents: ... and with its contents (Get / Iterator / ReverseIterator / Size)
		if s.h != nil {
			if r := s.h.waitPrunes(); r != "ok" {
				note("%s", r)
			}
		}
		if err := s.h.close(); err != nil {
			note("close: %v", err)
		}
		s.h = nil
		vers, cps, err := rootRows(s.cur)
		note("root rows: %v checkpoints: %v err=%v; required >= %d", vers, cps, err, s.minRequired)
		// versions between the bound computed when an asynchronous deletion beyond the latest
		// version was requested and the last checkpoint not after its bound NOW: the pruners may
		// or may not have reached them (both outcomes satisfy the property; a false alarm of this
		// oracle, which demanded the call-time bound, was corrected here)
		optionalBelow := s.minRequired
		for _, cp := range cps {
			if cp <= s.raceBound && cp > optionalBelow {
				optionalBelow = cp
			}
		}
		var bad, extra []string
		for v := int64(1); v <= s.latest; v++ {
			res := s.loadAndCheck(s.cur, v, op[0] == "loadcontents")
			required := v >= s.minRequired || v == s.latest
			if required && v != s.latest && v < optionalBelow {
				if res != "ok" && !strings.HasPrefix(res, "load-err") && !strings.HasPrefix(res, "panic") && !onlyErrors(res) {
					bad = append(bad, fmt.Sprintf("v%d(optional):%s", v, res))
				}
				if res != "ok" {
					note("v%d given up by the deletion that ran while the history went on: %s", v, res)
				}
				continue
			}
			if required && res != "ok" {
				bad = append(bad, fmt.Sprintf("v%d:%s", v, res))
			}
			if !required {
				if res == "ok" {
					extra = append(extra, fmt.Sprint(v))
				} else if !strings.HasPrefix(res, "load-err") {
					// loads but is wrong: worse than not loading
					bad = append(bad, fmt.Sprintf("v%d(pruned):%s", v, res))
				}
			}
		}
		if len(extra) > 0 {
			note("versions below the bound that still load correctly: %s", strings.Join(extra, ","))
		}
		if len(bad) > 0 {
			return clip(strings.Join(bad, "|"))
		}
		return "ok"
	case "livesnap": // x livesnap: SaveSnapshot of the live tree at its current version
		if s.h == nil {
			return "closed"
		}
		if r := s.checkTree(s.h.tree, s.latest); r != "ok" {
			// the live tree is already wrong (reloaded through the change log): no snapshot
			s.badSnap[s.latest] = true
			return "source:" + clip(r)
		}
		if err := s.h.tree.SaveSnapshot(); err != nil {
			// while the asynchronous pruners started by "x prune n nowait" are still running the
			// snapshot may be refused (SQLite: cannot start a transaction within a transaction):
			// an error, no snapshot, nothing the property speaks about. The version is remembered
			// as having no snapshot.
			if t, l := s.h.log.counts(); t < s.h.prunes || l < s.h.prunes {
				note("snapshot refused while pruning is in flight: %v", err)
				s.badSnap[s.latest] = true
				return "ok"
			}
			return "err:" + firstLine(err.Error())
		}
		return "ok"
	case "liveexport": // x liveexport v pre|post: Export of the live tree -> WriteSnapshot into a new database
		if s.h == nil {
			return "closed"
		}
		if r := s.checkTree(s.h.tree, s.latest); r != "ok" {
			return "source:" + clip(r)
		}
		return s.exportFrom(s.h.tree, atoi(op[1]), order(op[2]), note)
	case "snapload": // x snapload v pre|post: copy, fresh tree, LoadSnapshot(v, order)
		if s.badSnap[atoi(op[1])] {
			return "source:no-snapshot-taken"
		}
		return s.snapLoad(atoi(op[1]), order(op[2]), note)
	case "selftest": // x selftest exit|hang|panic: exercises the containment paths of the harness itself
		switch op[1] {
		case "exit":
			os.Exit(1)
		case "hang":
			time.Sleep(opTimeout + 5*time.Second)
		case "panic":
			panic("selftest panic with spaces")
		}
		return "ok"
	case "snap": // x snap v pre|post: copy, LoadVersion(v), SaveSnapshot, close, fresh tree, LoadSnapshot
		return s.snapRoundTrip(atoi(op[1]), order(op[2]), note)
	case "export": // x export v pre|post: copy, LoadVersion(v), Export -> WriteSnapshot into a new database
		return s.exportImport(atoi(op[1]), order(op[2]), note)
	}
	return "badx"
}

func clip(s string) string {
	s = strings.ReplaceAll(s, " ", "_")
	if len(s) > 400 {
		s = s[:400] + "..."
	}
	return s
}

func order(s string) v2.TraverseOrderType {
	if s == "post" {
		return v2.PostOrder
	}
	return v2.PreOrder
}

// waitPrunes waits until both asynchronous pruners have logged the end of every prune requested on
// this handle (the log is the only completion signal the library offers).
func (h *handle) waitPrunes() string {
	deadline := time.Now().Add(15 * time.Second)
	for {
		t, l := h.log.counts()
		if t >= h.prunes && l >= h.prunes {
			return "ok"
		}
		if time.Now().After(deadline) {
			return fmt.Sprintf("prune-not-finished(tree=%d,leaf=%d,want=%d)", t, l, h.prunes)
		}
		time.Sleep(2 * time.Millisecond)
	}
}

// loadAndCheck opens dir with a new SqliteDb/Tree, loads version v, compares and closes.
func (s *Sys) loadAndCheck(dir string, v int64, contents bool) string {
	return safely(func() string {
		h, err := s.openHandle(dir)
		if err != nil {
			return "open-err"
		}
		defer h.close()
		if err := h.tree.LoadVersion(v); err != nil {
			s.dbg(err)
			return "load-err:" + clip(firstLine(err.Error()))
		}
		if h.tree.Version() != v {
			return fmt.Sprintf("version:%d", h.tree.Version())
		}
		if !contents {
			if !bytes.Equal(h.tree.Hash(), s.H[v]) {
				return fmt.Sprintf("hash:%x", h.tree.Hash())
			}
			return "ok"
		}
		return s.checkTree(h.tree, v)
	})
}

// mainClosedCopy returns a copy of the main database (which must not be open).
func (s *Sys) mainClosedCopy() (string, error) {
	if s.h != nil && s.cur == s.main {
		return "", errors.New("main database is open")
	}
	dir := s.tmpDir()
	return dir, copyDir(s.main, dir)
}

func (s *Sys) snapLoad(v int64, ord v2.TraverseOrderType, note func(string, ...any)) string {
	dir, err := s.mainClosedCopy()
	if err != nil {
		return "copyfail:" + firstLine(err.Error())
	}
	defer os.RemoveAll(dir)
	return s.snapLoadIn(dir, v, ord, note)
}

func (s *Sys) snapLoadIn(dir string, v int64, ord v2.TraverseOrderType, note func(string, ...any)) string {
	h, err := s.openHandle(dir)
	if err != nil {
		return "open-err"
	}
	defer h.close()
	if err := h.tree.LoadSnapshot(v, ord); err != nil {
		return "loadsnapshot-err:" + clip(firstLine(err.Error()))
	}
	if h.tree.Version() != v {
		return fmt.Sprintf("version:%d", h.tree.Version())
	}
	return s.checkTree(h.tree, v)
}

func (s *Sys) snapRoundTrip(v int64, ord v2.TraverseOrderType, note func(string, ...any)) string {
	dir, err := s.mainClosedCopy()
	if err != nil {
		return "copyfail:" + firstLine(err.Error())
	}
	defer os.RemoveAll(dir)
	h, err := s.openHandle(dir)
	if err != nil {
		return "open-err"
	}
	if err := h.tree.LoadVersion(v); err != nil {
		h.close()
		return "load-err:" + clip(firstLine(err.Error()))
	}
	if r := s.checkTree(h.tree, v); r != "ok" {
		// garbage in, garbage out: the loaded source is already wrong (see x loadcontents)
		h.close()
		return "source:" + clip(r)
	}
	if err := h.tree.SaveSnapshot(); err != nil {
		h.close()
		return "savesnapshot-err:" + clip(firstLine(err.Error()))
	}
	if err := h.close(); err != nil {
		note("close after SaveSnapshot: %v", err)
	}
	return s.snapLoadIn(dir, v, ord, note)
}

func (s *Sys) exportImport(v int64, ord v2.TraverseOrderType, note func(string, ...any)) string {
	dir, err := s.mainClosedCopy()
	if err != nil {
		return "copyfail:" + firstLine(err.Error())
	}
	defer os.RemoveAll(dir)
	src, err := s.openHandle(dir)
	if err != nil {
		return "open-err"
	}
	defer src.close()
	if err := src.tree.LoadVersion(v); err != nil {
		return "load-err:" + clip(firstLine(err.Error()))
	}
	if r := s.checkTree(src.tree, v); r != "ok" {
		return "source:" + clip(r)
	}
	return s.exportFrom(src.tree, v, ord, note)
}

// exportFrom: Export(order) of a tree at version v -> WriteSnapshot into a new database -> load it.
func (s *Sys) exportFrom(t *v2.Tree, v int64, ord v2.TraverseOrderType, note func(string, ...any)) string {
	if len(s.refVers[v]) == 0 {
		// an empty tree exports an empty stream
		exp := t.Export(ord)
		n, err := exp.Next()
		if n == nil && errors.Is(err, v2.ErrorExportDone) {
			return "ok"
		}
		return "empty-export-not-empty"
	}
	dst := s.tmpDir()
	defer os.RemoveAll(dst)
	dh, err := s.openHandle(dst)
	if err != nil {
		return "open-err"
	}
	exp := t.Export(ord)
	root, err := dh.sql.WriteSnapshot(context.Background(), v, exp.Next,
		v2.SnapshotOptions{StoreLeafValues: true, WriteCheckpoint: true, TraverseOrder: ord})
	if err != nil {
		dh.close()
		return "writesnapshot-err:" + clip(firstLine(err.Error()))
	}
	if !bytes.Equal(root.GetHash(), s.H[v]) {
		dh.close()
		return fmt.Sprintf("import-root-hash:%x", root.GetHash())
	}
	if err := dh.close(); err != nil {
		note("close after WriteSnapshot: %v", err)
	}
	// 1. the imported database loads as a checkpoint of version v
	var bad []string
	if r := s.loadAndCheck(dst, v, true); r != "ok" {
		bad = append(bad, "loadversion:"+r)
	}
	// 2. and through its snapshot table
	if r := safely(func() string { return s.snapLoadIn(dst, v, ord, note) }); r != "ok" {
		bad = append(bad, "loadsnapshot:"+r)
	}
	if len(bad) > 0 {
		return clip(strings.Join(bad, "|"))
	}
	return "ok"
}

// onlyErrors: every part of a contents check (";"-separated) reports an error or a panic - the
// version is partly gone and says so - none reports a wrong value.
func onlyErrors(res string) bool {
	for _, p := range strings.Split(res, ";") {
		if !strings.HasSuffix(p, ":err") && !strings.Contains(p, "panic") {
			return false
		}
	}
	return true
}
