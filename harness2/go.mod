module verifharness2

go 1.23.0

require (
	github.com/cosmos/iavl v1.2.0
	github.com/cosmos/iavl/v2 v2.0.0-00010101000000-000000000000
)

replace github.com/cosmos/iavl => /repo

replace github.com/cosmos/iavl/v2 => /repo/v2
