package main

import (
	"bufio"
	"bytes"
	"fmt"
	"io"
	"os"
	"path/filepath"
	"sort"
	"strings"
	"sync"
	"time"

	"github.com/bvinc/go-sqlite-lite/sqlite3"
	v1 "github.com/cosmos/iavl"
	dbm "github.com/cosmos/iavl/db"
	v2 "github.com/cosmos/iavl/v2"
	"github.com/cosmos/iavl/v2/metrics"
)

// Config is one point of the v2 configuration sweep (invisible to the model).
type Config struct {
	CI    int64 // TreeOptions.CheckpointInterval
	HF    int8  // TreeOptions.HeightFilter (leaf eviction)
	ED    int8  // TreeOptions.EvictionDepth
	Shard bool  // SqliteDbOptions.ShardTrees
}

func (c Config) String() string {
	return fmt.Sprintf("ci=%d,hf=%d,ed=%d,shard=%v", c.CI, c.HF, c.ED, c.Shard)
}

func parseConfig(s string) Config {
	c := Config{CI: 1000, HF: 1, ED: -1}
	for _, f := range strings.Split(s, ",") {
		kv := strings.SplitN(f, "=", 2)
		if len(kv) != 2 {
			continue
		}
		switch kv[0] {
		case "ci":
			c.CI = atoi(kv[1])
		case "hf":
			c.HF = int8(atoi(kv[1]))
		case "ed":
			c.ED = int8(atoi(kv[1]))
		case "shard":
			c.Shard = kv[1] == "true"
		}
	}
	return c
}

// traceOut serialises trace lines (the library's logger may write from its goroutines) and
// flushes after every line: the library may os.Exit under our feet.
type traceOut struct {
	mu sync.Mutex
	w  *bufio.Writer
}

func (t *traceOut) line(format string, a ...any) {
	t.mu.Lock()
	defer t.mu.Unlock()
	fmt.Fprintf(t.w, format, a...)
	fmt.Fprintln(t.w)
	t.w.Flush()
}

// capLogger is handed to the library: it is the only completion signal of the asynchronous pruning.
type capLogger struct {
	mu       sync.Mutex
	treeDone int
	leafDone int
	out      *traceOut
}

func (l *capLogger) Info(string, ...any) {}
func (l *capLogger) Warn(msg string, kv ...any) {
	if os.Getenv("H2_DEBUG") != "" {
		fmt.Fprintln(os.Stderr, "v2 WARN:", msg, kv)
	}
}
func (l *capLogger) Error(msg string, kv ...any) {
	// the writer loops log here and then call os.Exit(1)
	l.out.line("# v2-error-log: %s %s", firstLine(msg), firstLine(fmt.Sprint(kv...)))
}
func (l *capLogger) Debug(msg string, _ ...any) {
	l.mu.Lock()
	defer l.mu.Unlock()
	switch {
	case strings.HasPrefix(msg, "done tree prune"):
		l.treeDone++
	case strings.HasPrefix(msg, "done leaf prune"), strings.HasPrefix(msg, "skipping leaf prune"):
		l.leafDone++
	}
}
func (l *capLogger) counts() (int, int) {
	l.mu.Lock()
	defer l.mu.Unlock()
	return l.treeDone, l.leafDone
}

// handle is one open v2 database + tree.
type handle struct {
	dir  string
	sql  *v2.SqliteDb
	tree *v2.Tree
	log  *capLogger

	prunes int // DeleteVersionsTo calls on this handle
}

func (s *Sys) openHandle(dir string) (*handle, error) {
	pool := v2.NewNodePool()
	lg := &capLogger{out: s.out}
	sql, err := v2.NewSqliteDb(pool, v2.SqliteDbOptions{Path: dir, ShardTrees: s.cfg.Shard, Logger: lg})
	if err != nil {
		return nil, err
	}
	tree := v2.NewTree(sql, pool, v2.TreeOptions{
		CheckpointInterval: s.cfg.CI,
		StateStorage:       true,
		HeightFilter:       s.cfg.HF,
		EvictionDepth:      s.cfg.ED,
		MetricsProxy:       &metrics.NilMetrics{},
	})
	return &handle{dir: dir, sql: sql, tree: tree, log: lg}, nil
}

func (h *handle) close() error {
	if h == nil || h.tree == nil {
		return nil
	}
	if h.prunes > 0 {
		// closing under a running pruner races with its goroutine: wait (deterministic traces)
		_ = h.waitPrunes()
	}
	err := h.tree.Close()
	h.tree = nil
	return err
}

// Sys is v2 under one configuration, with v1 and a plain versioned map running alongside.
type Sys struct {
	cfg   Config
	out   *traceOut
	stats map[string]int

	root string  // temp root of everything of this case
	main string  // the main database directory
	h    *handle // current handle (on main or on a copy), nil when closed
	cur  string  // directory of the current handle
	nTmp int

	latest int64 // model-level latest version (after lvfo v: v)

	// the uninterrupted run
	H map[int64][]byte // v2 root hash of the first save of each version

	// references
	t1      *v1.MutableTree
	refCur  map[string][]byte
	refVers map[int64]map[string][]byte

	// continuation bookkeeping (since the last lvfo)
	contFrom int64
	contBad  string

	badSnap     map[int64]bool // live snapshots not taken because the live tree was already wrong
	minRequired int64          // versions >= minRequired must stay loadable (raised by prunes)
	raceBound   int64          // largest bound beyond the latest version given to a deletion that was not waited for
}

func newSys(cfg Config, out *traceOut, stats map[string]int) (*Sys, error) {
	root, err := os.MkdirTemp(os.Getenv("H2_TMP"), "verif-v2-")
	if err != nil {
		return nil, err
	}
	s := &Sys{cfg: cfg, out: out, stats: stats, root: root, main: filepath.Join(root, "main"),
		badSnap: map[int64]bool{}, H: map[int64][]byte{}, refCur: map[string][]byte{}, refVers: map[int64]map[string][]byte{}}
	s.t1 = v1.NewMutableTree(dbm.NewMemDB(), 100, false, v1.NewNopLogger())
	s.h, err = s.openHandle(s.main)
	s.cur = s.main
	if err != nil {
		os.RemoveAll(root)
		return nil, err
	}
	return s, nil
}

func (s *Sys) close() {
	_ = s.h.close()
	s.h = nil
	_ = os.RemoveAll(s.root)
}

func (s *Sys) tmpDir() string {
	s.nTmp++
	return filepath.Join(s.root, fmt.Sprintf("copy%d", s.nTmp))
}

func copyDir(src, dst string) error {
	if err := os.MkdirAll(dst, 0o755); err != nil {
		return err
	}
	ents, err := os.ReadDir(src)
	if err != nil {
		return err
	}
	for _, e := range ents {
		if e.IsDir() {
			if err := copyDir(filepath.Join(src, e.Name()), filepath.Join(dst, e.Name())); err != nil {
				return err
			}
			continue
		}
		in, err := os.Open(filepath.Join(src, e.Name()))
		if err != nil {
			return err
		}
		outf, err := os.Create(filepath.Join(dst, e.Name()))
		if err != nil {
			in.Close()
			return err
		}
		_, err = io.Copy(outf, in)
		in.Close()
		if cerr := outf.Close(); err == nil {
			err = cerr
		}
		if err != nil {
			return err
		}
	}
	return nil
}

func cloneMap(m map[string][]byte) map[string][]byte {
	o := make(map[string][]byte, len(m))
	for k, v := range m {
		o[k] = v
	}
	return o
}

func (s *Sys) dbg(err error) {
	if err != nil && os.Getenv("H2_DEBUG") != "" {
		fmt.Fprintln(os.Stderr, "DEBUG error:", err)
	}
}

func errStr(err error) string {
	if err == nil {
		return "ok"
	}
	if os.Getenv("H2_DEBUG") != "" {
		fmt.Fprintln(os.Stderr, "DEBUG error:", err)
	}
	return "err"
}

// ---- reads ---------------------------------------------------------------------------------

func collect(it v2.Iterator, err error) ([]kv, string) {
	if err != nil {
		return nil, "err"
	}
	defer it.Close()
	var out []kv
	for ; it.Valid(); it.Next() {
		out = append(out, kv{append([]byte{}, it.Key()...), append([]byte{}, it.Value()...)})
		if len(out) > 100000 {
			return nil, "runaway"
		}
	}
	if it.Error() != nil {
		return nil, "err"
	}
	return out, ""
}

// iterate maps the model's range [start, end) / [start, end] in either direction onto v2:
//
//	ascending : Tree.Iterator(start, end, inclusive)       start = lower bound (incl), end = upper bound
//	descending: Tree.ReverseIterator(start, end)           same argument roles: start = LOWER bound (incl),
//	                                                        end = UPPER bound (excl); no inclusive form exists
func iterate(t *v2.Tree, start, end []byte, incl, asc bool) ([]kv, string) {
	if asc {
		return collect(t.Iterator(start, end, incl))
	}
	if incl {
		return nil, "unsupported"
	}
	return collect(t.ReverseIterator(start, end))
}

func execRead(t *v2.Tree, toks []string) string {
	switch toks[0] {
	case "get":
		v, err := t.Get(unhx(toks[1]))
		if err != nil {
			return errStr(err)
		}
		return rBytes(v)
	case "has":
		b, err := t.Has(unhx(toks[1]))
		if err != nil {
			return errStr(err)
		}
		return rBool(b)
	case "size":
		return rInt(t.Size())
	case "height":
		return rInt(int64(t.Height()))
	case "iter":
		out, e := iterate(t, unhx(toks[1]), unhx(toks[2]), toks[3] == "1", toks[4] == "1")
		if e != "" {
			return e
		}
		return rKvs(out)
	}
	return "badread"
}

// ---- the independent content check used by the harness-level oracles ---------------------------

func sortedRef(m map[string][]byte) []kv {
	ks := make([]string, 0, len(m))
	for k := range m {
		ks = append(ks, k)
	}
	sort.Strings(ks)
	out := make([]kv, len(ks))
	for i, k := range ks {
		out[i] = kv{[]byte(k), m[k]}
	}
	return out
}

// checkTree compares hash and contents of a loaded tree with the uninterrupted run / the plain map.
func (s *Sys) checkTree(t *v2.Tree, version int64) string {
	return safely(func() string {
		var bad []string
		if want, ok := s.H[version]; ok && !bytes.Equal(t.Hash(), want) {
			bad = append(bad, fmt.Sprintf("hash:%x", t.Hash()))
		}
		ref, ok := s.refVers[version]
		if !ok {
			return "no-reference"
		}
		want := sortedRef(ref)
		got, e := iterate(t, nil, nil, false, true)
		if e != "" {
			bad = append(bad, "iter:"+e)
		} else if d := diffKvs(got, want); d != "" {
			bad = append(bad, "iter:"+d)
		}
		rev, e := iterate(t, nil, nil, false, false)
		if e != "" {
			bad = append(bad, "riter:"+e)
		} else {
			for i, j := 0, len(rev)-1; i < j; i, j = i+1, j-1 {
				rev[i], rev[j] = rev[j], rev[i]
			}
			if d := diffKvs(rev, want); d != "" {
				bad = append(bad, "riter:"+d)
			}
		}
		for _, p := range want {
			v, err := t.Get(p.k)
			if err != nil {
				bad = append(bad, fmt.Sprintf("get(%x):err", p.k))
			} else if !bytes.Equal(v, p.v) || v == nil {
				bad = append(bad, fmt.Sprintf("get(%x):%s", p.k, rBytes(v)))
			}
			if len(bad) > 6 {
				break
			}
		}
		if len(want) > 0 {
			if sz := safely(func() string { return rInt(t.Size()) }); sz != rInt(int64(len(want))) {
				bad = append(bad, "size:"+sz)
			}
		}
		if len(bad) == 0 {
			return "ok"
		}
		return strings.Join(bad, ";")
	})
}

// diffKvs: "" when equal; "values(n):k=got/want,.." when only values differ (same keys in the same
// order); "keys:<got>" otherwise.
func diffKvs(got, want []kv) string {
	same := len(got) == len(want)
	if same {
		for i := range got {
			if !bytes.Equal(got[i].k, want[i].k) {
				same = false
			}
		}
	}
	if !same {
		return "keys:" + rKvs(got)
	}
	var ds []string
	n := 0
	for i := range got {
		if !bytes.Equal(got[i].v, want[i].v) {
			n++
			if len(ds) < 3 {
				ds = append(ds, fmt.Sprintf("%s=%s/%s", short(got[i].k), short(got[i].v), short(want[i].v)))
			}
		}
	}
	if n == 0 {
		return ""
	}
	return fmt.Sprintf("values(%d):%s", n, strings.Join(ds, ","))
}

func short(b []byte) string {
	if len(b) > 8 {
		return fmt.Sprintf("%x..", b[:8])
	}
	return fmt.Sprintf("%x", b)
}

// rootRows reads the root table directly: version -> checkpoint flag.
func rootRows(dir string) (versions []int64, checkpoints []int64, err error) {
	conn, err := sqlite3.Open("file:" + filepath.Join(dir, "tree.sqlite") + "?mode=ro")
	if err != nil {
		return nil, nil, err
	}
	defer conn.Close()
	q, err := conn.Prepare("SELECT version, checkpoint FROM root ORDER BY version")
	if err != nil {
		return nil, nil, err
	}
	defer q.Close()
	for {
		ok, err := q.Step()
		if err != nil {
			return nil, nil, err
		}
		if !ok {
			break
		}
		var v int64
		var cp bool
		if err = q.Scan(&v, &cp); err != nil {
			return nil, nil, err
		}
		versions = append(versions, v)
		if cp {
			checkpoints = append(checkpoints, v)
		}
	}
	return versions, checkpoints, nil
}

// withTimeout runs f; a result that takes longer than d is "hang".
func withTimeout(d time.Duration, f func() string) (string, bool) {
	ch := make(chan string, 1)
	go func() { ch <- safely(f) }()
	select {
	case r := <-ch:
		return r, false
	case <-time.After(d):
		return "hang", true
	}
}

// orphanRaw renders the branch bookkeeping of tree.sqlite: the orphan rows (version.sequence@at),
// the keys of the branch rows of every tree_<shard> table (version.sequence) and the root rows
// (version, c = checkpoint): oraw(o=..;b=..;r=..), each part sorted.
func orphanRaw(dir string) (string, error) {
	conn, err := sqlite3.Open("file:" + filepath.Join(dir, "tree.sqlite") + "?mode=ro")
	if err != nil {
		return "", err
	}
	defer conn.Close()
	query := func(sql string, f func(*sqlite3.Stmt) error) error {
		q, err := conn.Prepare(sql)
		if err != nil {
			return err
		}
		defer q.Close()
		for {
			ok, err := q.Step()
			if err != nil {
				return err
			}
			if !ok {
				return nil
			}
			if err := f(q); err != nil {
				return err
			}
		}
	}
	var os, bs, rs, tables []string
	if err := query("SELECT version, sequence, at FROM orphan ORDER BY version, sequence, at", func(q *sqlite3.Stmt) error {
		var v, sq, at int64
		if err := q.Scan(&v, &sq, &at); err != nil {
			return err
		}
		os = append(os, fmt.Sprintf("%d.%d@%d", v, sq, at))
		return nil
	}); err != nil {
		return "", err
	}
	if err := query("SELECT name FROM sqlite_master WHERE type = 'table' AND name LIKE 'tree_%'", func(q *sqlite3.Stmt) error {
		var n string
		if err := q.Scan(&n); err != nil {
			return err
		}
		tables = append(tables, n)
		return nil
	}); err != nil {
		return "", err
	}
	// with sharded tables a branch is read and pruned in ITS shard (the first shard at or after
	// its version: getShard); copies written again into later shards are looked at by nobody and
	// are not part of the model: only the row in the home shard is listed
	var ids []int64
	for _, tb := range tables {
		var id int64
		if _, err := fmt.Sscanf(tb, "tree_%d", &id); err == nil {
			ids = append(ids, id)
		}
	}
	home := func(v int64) int64 {
		h := int64(-1)
		for _, id := range ids {
			if id >= v && (h == -1 || id < h) {
				h = id
			}
		}
		return h
	}
	for _, tb := range tables {
		var id int64
		if _, err := fmt.Sscanf(tb, "tree_%d", &id); err != nil {
			continue
		}
		if err := query("SELECT version, sequence FROM "+tb, func(q *sqlite3.Stmt) error {
			var v, sq int64
			if err := q.Scan(&v, &sq); err != nil {
				return err
			}
			if len(ids) == 1 || home(v) == id {
				bs = append(bs, fmt.Sprintf("%d.%d", v, sq))
			}
			return nil
		}); err != nil {
			return "", err
		}
	}
	sort.Strings(bs)
	// a branch that is still in memory at a later checkpoint is written again under the same key
	// (into the new shard when the tables are sharded): one key, listed once
	uniq := bs[:0]
	for i, b := range bs {
		if i == 0 || b != bs[i-1] {
			uniq = append(uniq, b)
		}
	}
	bs = uniq
	if err := query("SELECT version, checkpoint FROM root ORDER BY version", func(q *sqlite3.Stmt) error {
		var v int64
		var cp bool
		if err := q.Scan(&v, &cp); err != nil {
			return err
		}
		c := ""
		if cp {
			c = "c"
		}
		rs = append(rs, fmt.Sprintf("%d%s", v, c))
		return nil
	}); err != nil {
		return "", err
	}
	return "oraw(o=" + strings.Join(os, ",") + ";b=" + strings.Join(bs, ",") + ";r=" + strings.Join(rs, ",") + ")", nil
}

// leafRaw renders the leaf side of the change-log database (changelog.sqlite): the keys of the
// leaf rows (version.sequence), the leaf_delete rows (version.sequence:hexkey) and the leaf_orphan
// rows (version.sequence@at): lfraw(l=..;d=..;o=..), each part sorted by (version, sequence).
func leafRaw(dir string) (string, error) {
	conn, err := sqlite3.Open("file:" + filepath.Join(dir, "changelog.sqlite") + "?mode=ro")
	if err != nil {
		return "", err
	}
	defer conn.Close()
	query := func(sql string, f func(*sqlite3.Stmt) error) error {
		q, err := conn.Prepare(sql)
		if err != nil {
			return err
		}
		defer q.Close()
		for {
			ok, err := q.Step()
			if err != nil {
				return err
			}
			if !ok {
				return nil
			}
			if err := f(q); err != nil {
				return err
			}
		}
	}
	var ls, ds, os []string
	if err := query("SELECT version, sequence FROM leaf ORDER BY version, sequence", func(q *sqlite3.Stmt) error {
		var v, sq int64
		if err := q.Scan(&v, &sq); err != nil {
			return err
		}
		ls = append(ls, fmt.Sprintf("%d.%d", v, sq))
		return nil
	}); err != nil {
		return "", err
	}
	if err := query("SELECT version, sequence, key FROM leaf_delete ORDER BY version, sequence", func(q *sqlite3.Stmt) error {
		var v, sq int64
		var k []byte
		if err := q.Scan(&v, &sq, &k); err != nil {
			return err
		}
		ds = append(ds, fmt.Sprintf("%d.%d:%x", v, sq, k))
		return nil
	}); err != nil {
		return "", err
	}
	if err := query("SELECT version, sequence, at FROM leaf_orphan ORDER BY version, sequence, at", func(q *sqlite3.Stmt) error {
		var v, sq, at int64
		if err := q.Scan(&v, &sq, &at); err != nil {
			return err
		}
		os = append(os, fmt.Sprintf("%d.%d@%d", v, sq, at))
		return nil
	}); err != nil {
		return "", err
	}
	return "lfraw(l=" + strings.Join(ls, ",") + ";d=" + strings.Join(ds, ",") + ";o=" + strings.Join(os, ",") + ")", nil
}
